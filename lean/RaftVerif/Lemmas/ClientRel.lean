/-
Helper lemmas for Props/C07Sys (client-visible semantics on the cluster system).

Part 1 — result strings: `valStr n` (`val:<n>`), `notLeaderStr l lost`, the classes `IsVal`, `Definite` (the results
the model gives on paths that store nothing: `notLeader:<l>:false`, `inProgress:transferLeadership`,
`inProgress:demoteLeader`, `inProgress:removeLeader`) and `Harmless` (neither), with the (dis)equalities needed.
Part 2 — a guarded closure for the leader side of `Node.step` (`RBase`, `RClosed`): like `SysInv.SClosed`, but
`reply` is only required for results that are not value answers (and definite rejections only for tasks in `D`),
a queue item is pushed together with its log entry, the leader record changes with the queue kept or emptied, and
`leader.applyCommitted` is a primitive.
Part 3 — the instance `WI`: the state machine holds the update payloads of the applied log prefix, the queue
matches the log, the log grew by entries that are no updates, every queued task is a known submission, every value
answer given in this step is the length of the applied sequence at a known item, and definite rejections went to
tasks in `D` only.
Part 4 — `client_step`: the summary of one step of a node for the cluster-level proof.
-/
import RaftVerif.Lemmas.SysInv
import Std.Data.String.ToNat

namespace Raft
namespace ClientRel
open Node LogRel CommitRel C03Sys

/-! ## result strings -/

/-- the answer of the recording state machine to an update / read: the length of the applied sequence -/
def valStr (n : Nat) : String := s!"val:{n}"

/-- `NotLeaderError{Leader, Lost}` in canonical form -/
def notLeaderStr (l : Nat) (lost : Bool) : String := s!"notLeader:{l}:{lost}"

theorem valStr_eq (n : Nat) : valStr n = "val:" ++ Nat.repr n := rfl
theorem notLeaderStr_eq (l : Nat) (b : Bool) :
    notLeaderStr l b = "notLeader:" ++ Nat.repr l ++ ":" ++ toString b := rfl

theorem notLeader_eq (s : Node) (b : Bool) :
    s.notLeader b = notLeaderStr (if s.leader ≠ 0 then (s.configs.latest.get s.leader).id else 0) b := rfl

theorem valStr_toList (n : Nat) : (valStr n).toList = ['v','a','l',':'] ++ (Nat.repr n).toList := by
  rw [valStr_eq, String.toList_append]; rfl

theorem valStr_inj {n m : Nat} (h : valStr n = valStr m) : n = m := by
  have := congrArg String.toList h
  rw [valStr_toList, valStr_toList] at this
  exact Nat.repr_inj.mp (String.toList_inj.mp (List.append_cancel_left this))

/-- first character -/
def hd (r : String) : Option Char := r.toList.head?

/-- a value answer -/
def IsVal (r : String) : Prop := ∃ n, r = valStr n

/-- a definite rejection of a submitted entry: not leader (leadership not lost: nothing was stored), or a
leadership transfer / the leader's own demotion or removal is in progress -/
def Definite (r : String) : Prop :=
  (∃ l, r = notLeaderStr l false) ∨ r = "inProgress:transferLeadership" ∨ r = "inProgress:demoteLeader" ∨
    r = "inProgress:removeLeader"

/-- neither a value nor a definite rejection -/
def Harmless (r : String) : Prop := ¬ IsVal r ∧ ¬ Definite r

theorem hd_valStr (n : Nat) : hd (valStr n) = some 'v' := by
  unfold hd; rw [valStr_toList]; rfl

theorem hd_notLeaderStr (l : Nat) (b : Bool) : hd (notLeaderStr l b) = some 'n' := by
  unfold hd
  rw [notLeaderStr_eq, String.toList_append, String.toList_append, String.toList_append]
  rfl

theorem isVal_hd {r : String} (h : IsVal r) : hd r = some 'v' := by
  obtain ⟨n, rfl⟩ := h; exact hd_valStr n

theorem definite_hd {r : String} (h : Definite r) : hd r = some 'n' ∨ hd r = some 'i' := by
  rcases h with ⟨l, rfl⟩ | rfl | rfl | rfl
  · exact Or.inl (hd_notLeaderStr l false)
  · exact Or.inr (by decide)
  · exact Or.inr (by decide)
  · exact Or.inr (by decide)

theorem definite_not_val {r : String} (h : Definite r) : ¬ IsVal r := by
  intro hv
  have := isVal_hd hv
  rcases definite_hd h with e | e <;> (rw [e] at this; cases this)

theorem harmless_of_hd {r : String} {c : Char} (h : hd r = some c) (h1 : c ≠ 'v') (h2 : c ≠ 'n') (h3 : c ≠ 'i') :
    Harmless r := by
  constructor
  · intro hv; rw [isVal_hd hv] at h; injection h with h; exact h1 h.symm
  · intro hdf
    rcases definite_hd hdf with e | e <;> (rw [e] at h; injection h with h)
    · exact h2 h.symm
    · exact h3 h.symm

theorem harmless_ok : Harmless "ok" := harmless_of_hd (c := 'o') (by decide) (by decide) (by decide) (by decide)
theorem harmless_error : Harmless "error" := harmless_of_hd (c := 'e') (by decide) (by decide) (by decide) (by decide)
theorem harmless_timeout : Harmless "timeout:transferLeadership" :=
  harmless_of_hd (c := 't') (by decide) (by decide) (by decide) (by decide)
theorem harmless_plain_closed : Harmless "plain:serverClosed" :=
  harmless_of_hd (c := 'p') (by decide) (by decide) (by decide) (by decide)
theorem harmless_plain_quorum : Harmless "plain:quorumUnreachable" :=
  harmless_of_hd (c := 'p') (by decide) (by decide) (by decide) (by decide)

theorem harmless_config (n : Nat) : Harmless s!"config:{n}" := by
  refine harmless_of_hd (c := 'c') ?_ (by decide) (by decide) (by decide)
  unfold hd
  show ("config:" ++ Nat.repr n).toList.head? = _
  rw [String.toList_append]; rfl

theorem notLeader_true_ne_false (l l' : Nat) : notLeaderStr l true ≠ notLeaderStr l' false := by
  intro h
  have := congrArg (fun s => (s.toList.reverse).take 2) h
  simp only [notLeaderStr_eq, String.toList_append, List.reverse_append] at this
  have e1 : (toString true).toList.reverse = ['e', 'u', 'r', 't'] := by decide
  have e2 : (toString false).toList.reverse = ['e', 's', 'l', 'a', 'f'] := by decide
  rw [e1, e2, List.take_append_of_le_length (by decide), List.take_append_of_le_length (by decide)] at this
  revert this
  decide

theorem harmless_notLeader_true (l : Nat) : Harmless (notLeaderStr l true) := by
  constructor
  · intro hv; have := isVal_hd hv; rw [hd_notLeaderStr] at this; cases this
  · intro hdf
    rcases hdf with ⟨l', e⟩ | e | e | e
    · exact notLeader_true_ne_false l l' e
    all_goals (have := congrArg hd e; rw [hd_notLeaderStr] at this; revert this; decide)

theorem definite_notLeader_false (l : Nat) : Definite (notLeaderStr l false) := Or.inl ⟨l, rfl⟩

theorem not_val_of_hd {r : String} {c : Char} (h : hd r = some c) (h1 : c ≠ 'v') : ¬ IsVal r := by
  intro hv; rw [isVal_hd hv] at h; injection h with h; exact h1 h.symm


/-! ## Part 2: a guarded closure for the leader side of a step -/

/-- the fields the within-step invariants read -/
def wobs (s : Node) : List Entry × Nat × Nat × Nat × Fsm × List Reply × List QItem :=
  (s.log.entries, s.log.prev, s.lastLogIndex, s.commitIndex, s.fsm, s.replies, s.ldr.queue)

/-- a frame step: none of the fields `wobs` changed and no failure was cleared -/
structure WF (s s' : Node) : Prop where
  same : wobs s' = wobs s
  mono : s'.panicked = none → s.panicked = none

theorem WF.refl (s : Node) : WF s s := ⟨rfl, id⟩
theorem WF.trans {a b c : Node} (h1 : WF a b) (h2 : WF b c) : WF a c :=
  ⟨h2.same.trans h1.same, fun h => h1.mono (h2.mono h)⟩

theorem wf_panic (s : Node) (site : String) : WF s (s.panic site) := by
  unfold Node.panic; split
  · exact ⟨rfl, fun h => by cases h⟩
  · exact WF.refl s

theorem wf_storeTermVote (s : Node) (t c : Nat) : WF s (s.storeTermVote t c) := by
  unfold Node.storeTermVote Node.point; split <;> exact ⟨rfl, id⟩

theorem wf_setTerm (s : Node) (t : Nat) : WF s (s.setTerm t) := by
  unfold Node.setTerm
  split
  · split
    · exact wf_storeTermVote s t 0
    · exact wf_panic s _
  · exact WF.refl s

theorem wf_setVotedFor (s : Node) (t c : Nat) : WF s (s.setVotedFor t c) := by
  unfold Node.setVotedFor
  split
  · split
    · exact wf_storeTermVote s t c
    · exact wf_panic s _
  · exact WF.refl s

theorem wf_commitLog (s : Node) (n : Nat) : WF s (s.commitLog n) := by
  unfold Node.commitLog Node.point
  refine ⟨?_, id⟩
  unfold wobs
  obtain ⟨a, b⟩ := commitN_parts s.log n
  simp only [a, b]

theorem wf_changeConfigR (s : Node) (c : Config) : WF s (s.changeConfigR c) := by
  rw [changeConfigR_eq]; exact ⟨rfl, id⟩

/-- a predicate that survives every frame step -/
structure RFrame (Inv : Node → Prop) : Prop where
  frame : ∀ s s', Inv s → WF s s' → Inv s'

namespace RFrame
variable {Inv : Node → Prop} (h : RFrame Inv)
include h

theorem panic (s : Node) (site : String) (hs : Inv s) : Inv (s.panic site) := h.frame _ _ hs (wf_panic s site)
theorem assert (s : Node) (b : Bool) (site : String) (hs : Inv s) : Inv (s.assert b site) := by
  unfold Node.assert; split
  · exact hs
  · exact h.panic _ _ hs
theorem point (s : Node) (n : String) (hs : Inv s) : Inv (s.point n) := h.frame _ _ hs ⟨rfl, id⟩
theorem popOrder (s : Node) (hs : Inv s) : Inv s.popOrder := h.frame _ _ hs ⟨rfl, id⟩
theorem setRole (s : Node) (r : Role) (hs : Inv s) : Inv (s.setRole r) := h.frame _ _ hs ⟨rfl, id⟩
theorem setLeader (s : Node) (l : Nat) (hs : Inv s) : Inv (s.setLeader l) := h.frame _ _ hs ⟨rfl, id⟩
theorem ret (s : Node) (r : Nat) (hs : Inv s) : Inv (s.ret r) := h.frame _ _ hs ⟨rfl, id⟩
theorem rpcReply (s : Node) (r : Option RpcReply) (hs : Inv s) : Inv (s.withRpcReply r) := h.frame _ _ hs ⟨rfl, id⟩
theorem votesNeeded (s : Node) (v : Int) (hs : Inv s) : Inv (s.withVotesNeeded v) := h.frame _ _ hs ⟨rfl, id⟩
theorem candTransfer (s : Node) (v : Bool) (hs : Inv s) : Inv (s.withCandTransfer v) := h.frame _ _ hs ⟨rfl, id⟩
theorem snapPending (s : Node) (v : Option SnapReq) (hs : Inv s) : Inv (s.withSnapPending v) :=
  h.frame _ _ hs ⟨rfl, id⟩
/-- the leader record changes, the queue stays -/
theorem ldrQ (s : Node) (l : Leader) (hs : Inv s) (hq : l.queue = s.ldr.queue) : Inv (s.withLdr l) :=
  h.frame _ _ hs ⟨by unfold wobs Node.withLdr; simp only [hq], id⟩
theorem setTerm (s : Node) (t : Nat) (hs : Inv s) : Inv (s.setTerm t) := h.frame _ _ hs (wf_setTerm s t)
theorem setVotedFor (s : Node) (t c : Nat) (hs : Inv s) : Inv (s.setVotedFor t c) :=
  h.frame _ _ hs (wf_setVotedFor s t c)
theorem commitLog (s : Node) (n : Nat) (hs : Inv s) : Inv (s.commitLog n) := h.frame _ _ hs (wf_commitLog s n)
theorem changeConfigR (s : Node) (c : Config) (hs : Inv s) : Inv (s.changeConfigR c) :=
  h.frame _ _ hs (wf_changeConfigR s c)
theorem setRepl (s : Node) (r : Repl) (hs : Inv s) : Inv (s.setRepl r) := by
  unfold Node.setRepl; exact h.ldrQ _ _ hs rfl

theorem addReplication (s : Node) (n : CNode) (hs : Inv s) : Inv (s.addReplication n) := by
  unfold Node.addReplication
  apply h.setRepl
  split
  · exact h.assert _ _ _ hs
  · exact h.panic _ _ (h.assert _ _ _ hs)

theorem notifyFlr (s : Node) (hs : Inv s) : Inv s.notifyFlr := by
  unfold Node.notifyFlr; split
  · exact hs
  · split
    · exact hs
    · exact h.panic _ _ hs

theorem beginFinishedRounds (s : Node) (hs : Inv s) : Inv s.beginFinishedRounds := by
  unfold Node.beginFinishedRounds; exact h.ldrQ _ _ hs rfl

omit h in
theorem foldl_inv {β : Type} (f : Node → β → Node) (hf : ∀ s x, Inv s → Inv (f s x))
    (xs : List β) (s : Node) (hs : Inv s) : Inv (xs.foldl f s) := by
  induction xs generalizing s with
  | nil => exact hs
  | cons x xs ih => exact ih _ (hf _ _ hs)

theorem checkQuorum (s : Node) (hs : Inv s) : Inv s.checkQuorum := by
  unfold Node.checkQuorum; dsimp only
  repeat' split
  all_goals first
    | exact hs
    | exact h.panic _ _ hs
    | exact h.setLeader _ _ (h.setRole _ _ hs)
    | exact h.setLeader _ _ (h.setRole _ _ (h.panic _ _ hs))

theorem tryTransfer (s : Node) (hs : Inv s) : Inv s.tryTransfer := by
  unfold Node.tryTransfer; dsimp only
  have hp := h.popOrder s hs
  repeat' split
  all_goals first
    | exact hs
    | exact hp
    | exact h.panic _ _ hs
    | exact h.panic _ _ hp
    | exact h.ldrQ _ _ hs rfl
    | exact h.ldrQ _ _ hp rfl
    | exact h.ldrQ _ _ (h.panic _ _ hs) (by rw [(panic_fields _ _).2.2.2.2.2.2.1])
    | exact h.ldrQ _ _ (h.panic _ _ hp) (by rw [(panic_fields _ _).2.2.2.2.2.2.1])

theorem startElection (s : Node) (hs : Inv s) : Inv s.startElection := by
  unfold Node.startElection
  extract_lets s1 s2 s3 s4
  have h4 : Inv s4 := h.votesNeeded _ _ (h.setVotedFor _ _ _ (h.votesNeeded _ _ (h.assert _ _ _ hs)))
  split
  · exact h.setLeader _ _ (h.setRole _ _ h4)
  · exact h4

theorem onVoteResult (s : Node) (e : Bool) (t r : Nat) (hs : Inv s) : Inv (s.onVoteResult e t r) := by
  unfold Node.onVoteResult; dsimp only
  repeat' split
  all_goals first
    | exact hs
    | exact h.setTerm _ _ (h.setRole _ _ hs)
    | exact h.setLeader _ _ (h.setRole _ _ (h.votesNeeded _ _ hs))
    | exact h.votesNeeded _ _ hs

theorem followerTimeout (s : Node) (hs : Inv s) : Inv s.followerTimeout := by
  unfold Node.followerTimeout; dsimp only
  split
  · exact h.setRole _ _ (h.setLeader _ _ hs)
  · exact h.setLeader _ _ hs

theorem onVoteRequest (s : Node) (q : VoteReq) (hs : Inv s) : Inv (s.onVoteRequest q) := by
  unfold Node.onVoteRequest
  dsimp only
  repeat' split
  all_goals first
    | exact h.ret _ _ hs
    | exact h.ret _ _ (h.setVotedFor _ _ _ hs)
    | exact h.ret _ _ (h.setVotedFor _ _ _ (h.setRole _ _ hs))

theorem onTimeoutNow (s : Node) (hs : Inv s) : Inv s.onTimeoutNow := by
  unfold Node.onTimeoutNow
  split
  · exact h.ret _ _ hs
  · exact h.ret _ _ (h.candTransfer _ _ (h.setLeader _ _ (h.setRole _ _ hs)))

theorem rpcDone (s : Node) (a b : Bool) (hs : Inv s) : Inv (s.rpcDone a b) := by
  unfold Node.rpcDone
  split
  · exact h.panic _ _ (h.rpcReply _ _ hs)
  · exact h.rpcReply _ _ hs

end RFrame

/-- `WF b` itself survives frame steps -/
theorem rframe_wf (b : Node) : RFrame (WF b) := ⟨fun _ _ hs hw => hs.trans hw⟩

/-- what the generic part of a step may answer to task `t`: no value; a definite rejection only if `D t` -/
def G (D : Nat → Prop) (t : Nat) (r : String) : Prop := ¬ IsVal r ∧ (Definite r → D t)

theorem G_of_harmless {D : Nat → Prop} {t : Nat} {r : String} (h : Harmless r) : G D t r :=
  ⟨h.1, fun hd => absurd hd h.2⟩

/-- … and the two primitives `leader.release` needs besides: a guarded `reply`, and the leader record replaced by
one with an empty queue -/
structure RBase (D : Nat → Prop) (Inv : Node → Prop) : Prop extends RFrame Inv where
  reply : ∀ s t r, Inv s → t ≠ 0 → G D t r → Inv (s.reply t r)
  ldrNil : ∀ (s : Node) l, Inv s → l.queue = [] → Inv (s.withLdr l)

namespace RBase
variable {D : Nat → Prop} {Inv : Node → Prop} (h : RBase D Inv)
include h

theorem reply' (s : Node) (t : Nat) (r : String) (hs : Inv s) (hg : t ≠ 0 → G D t r) : Inv (s.reply t r) := by
  by_cases ht : t = 0
  · rw [ht, reply_zero]; exact hs
  · exact h.reply _ _ _ hs ht (hg ht)

theorem transferReply (s : Node) (r : String) (hs : Inv s) (hg : G D s.ldr.transfer.task r) :
    Inv (s.transferReply r) := by
  unfold Node.transferReply
  refine h.ldrQ _ _ (h.reply' _ _ _ hs (fun _ => hg)) ?_
  rw [(reply_fields _ _ _).2.2.2.2.2.2.1]

omit h in
theorem harmless_releaseResult (s : Node) : Harmless s.releaseResult := by
  unfold Node.releaseResult
  repeat' split
  · exact harmless_ok
  · exact harmless_plain_closed
  · exact harmless_plain_quorum

omit h in
theorem harmless_releaseErr (s : Node) :
    Harmless (if s.isClosed then "plain:serverClosed" else s.notLeader true) := by
  split
  · exact harmless_plain_closed
  · rw [notLeader_eq]; exact harmless_notLeader_true _

theorem leaderReleaseRest (s : Node) (hs : Inv s) : Inv s.leaderReleaseRest := by
  unfold Node.leaderReleaseRest
  extract_lets s1 err s2 s3
  have h1 : Inv s1 := by unfold s1; split; exact h.setLeader _ _ hs; exact hs
  have herr : Harmless err := harmless_releaseErr s1
  have h2 : Inv s2 := RFrame.foldl_inv _ (fun x q hx => h.reply' _ _ _ hx (fun _ => G_of_harmless herr)) _ _ h1
  have h3 : Inv s3 := RFrame.foldl_inv _ (fun x t hx => h.reply' _ _ _ hx (fun _ => G_of_harmless herr)) _ _ h2
  exact h.ldrNil _ _ h3 rfl

theorem leaderRelease (s : Node) (hs : Inv s) : Inv s.leaderRelease := by
  unfold Node.leaderRelease
  apply h.leaderReleaseRest
  split
  · exact h.transferReply _ _ hs (G_of_harmless (harmless_releaseResult s))
  · exact hs

theorem releaseRole (s : Node) (r : Role) (hs : Inv s) : Inv (s.releaseRole r) := by
  unfold Node.releaseRole
  split
  · exact hs
  · exact h.candTransfer _ _ hs
  · exact h.leaderRelease _ hs

end RBase

/-- **the closure for the leader side**: a queue item is pushed together with its log entry (`storeEntry`; `P typ
data` restricts what may be pushed: the generic part of a step pushes only internal items — no-op and configuration
entries), the commit index only moves forward, `leader.applyCommitted` is a primitive -/
structure RClosed (P : Nat → String → Prop) (D : Nat → Prop) (Inv : Node → Prop) : Prop extends RBase D Inv where
  pushLog : ∀ (s : Node) q, Inv s → P q.typ q.data → q.task = 0 → isLogEntryTyp q.typ = true →
    Inv ((s.withLdr { s.ldr with queue := s.ldr.queue ++ [q] }).appendEntry q.toEntry)
  pushOther : ∀ (s : Node) q, Inv s → P q.typ q.data → q.task = 0 → isLogEntryTyp q.typ = false →
    Inv (s.withLdr { s.ldr with queue := s.ldr.queue ++ [q] })
  commitIdx : ∀ (s : Node) i, Inv s → i > s.commitIndex → Inv (s.setCommitIndexR i).1
  applyL : ∀ s, Inv s → Inv s.applyCommittedL

/-- an internal batch: items without a task whose type and payload may be pushed -/
def Internal (P : Nat → String → Prop) (b : List QItem) : Prop := ∀ q ∈ b, q.task = 0 ∧ P q.typ q.data

namespace RClosed
variable {P : Nat → String → Prop} {D : Nat → Prop} {Inv : Node → Prop} (h : RClosed P D Inv)
include h

/-- the part of `storeEntry` after the loop over the batch -/
theorem storeEntry_tail (hMC : ∀ s, Inv s → Inv (onMajorityCommit n s)) (s : Node) (b : List QItem)
    (h1 : Inv (storeItems n s b)) : Inv (storeEntry (n + 1) s b) := by
  unfold storeEntry; dsimp only
  have h2 := h.applyL _ h1
  repeat' split
  all_goals first
    | exact hMC _ (h.notifyFlr _ (h.beginFinishedRounds _ h2))
    | exact hMC _ (h.notifyFlr _ (h.beginFinishedRounds _ h1))
    | exact h.notifyFlr _ (h.beginFinishedRounds _ h2)
    | exact h.notifyFlr _ (h.beginFinishedRounds _ h1)
    | exact h2
    | exact h1

/-- The leader block for internal batches and task 0 preserves every closed invariant. -/
theorem block (hCfg : P etConfig "") : ∀ fuel : Nat,
    (∀ s b, Inv s → Internal P b → Inv (storeEntry fuel s b)) ∧
    (∀ s b, Inv s → Internal P b → Inv (storeItems fuel s b)) ∧
    (∀ s c, Inv s → Inv (changeConfigL fuel s c)) ∧
    (∀ s c, Inv s → Inv (doChangeConfig fuel s 0 c)) ∧
    (∀ s c, Inv s → Inv (checkConfigActions fuel s 0 c)) ∧
    (∀ s c id, Inv s → Inv (checkConfigAction fuel s 0 c id)) ∧
    (∀ s i, Inv s → i > s.commitIndex → Inv (setCommitIndexL fuel s i)) ∧
    (∀ s, Inv s → Inv (onMajorityCommit fuel s)) := by
  intro fuel
  induction fuel with
  | zero =>
    refine ⟨?_, ?_, ?_, ?_, ?_, ?_, ?_, ?_⟩ <;> intros <;> (try unfold storeItems) <;>
      (try unfold storeEntry) <;> (try unfold changeConfigL) <;> (try unfold doChangeConfig) <;>
      (try unfold checkConfigActions) <;> (try unfold checkConfigAction) <;>
      (try unfold setCommitIndexL) <;> (try unfold onMajorityCommit) <;>
      (try split) <;> first | assumption | (apply h.panic; assumption)
  | succ n ih =>
    obtain ⟨ihSE, ihSI, ihCL, ihDC, ihCAs, ihCA, ihSC, ihMC⟩ := ih
    refine ⟨?_, ?_, ?_, ?_, ?_, ?_, ?_, ?_⟩
    · -- storeEntry
      intro s b hs hb
      exact h.storeEntry_tail ihMC s b (ihSI _ _ hs hb)
    · -- storeItems
      intro s b hs hb
      cases b with
      | nil => unfold storeItems; exact hs
      | cons q qs =>
        obtain ⟨hq0, hqP⟩ := hb q (List.mem_cons_self ..)
        have hqs : Internal P qs := fun x hx => hb x (List.mem_cons_of_mem _ hx)
        obtain ⟨qi, qt, qty, qd, qc, qtask⟩ := q
        have hq0' : qtask = 0 := hq0
        subst hq0'
        unfold storeItems; dsimp only
        refine ihSI _ _ ?_ hqs
        simp only [reply_zero]
        split
        · exact hs
        · split
          · split <;> exact hs
          · have hL := h.pushLog s ⟨s.lastLogIndex + 1, s.term, qty, qd, qc.map Config.payload, 0⟩ hs hqP rfl
            have hO := h.pushOther s ⟨s.lastLogIndex + 1, s.term, qty, qd, qc.map Config.payload, 0⟩ hs hqP rfl
            split
            · rename_i hlt
              split
              · split
                · exact ihCL _ _ (hL hlt)
                · exact h.panic _ _ (hL hlt)
              · exact hL hlt
            · rename_i hlt
              exact hO (by simpa using hlt)
    · -- changeConfigL
      intro s c hs
      unfold changeConfigL; dsimp only
      apply ihCAs
      apply RFrame.foldl_inv
      · intro s x hs
        split
        · exact hs
        · split
          · exact h.addReplication _ _ hs
          · exact h.setRepl _ _ hs
      · refine h.ldrQ _ _ (h.changeConfigR _ _ (h.ldrQ _ _ hs rfl)) ?_
        rw [changeConfigR_ldr]
    · -- doChangeConfig
      intro s c hs
      unfold doChangeConfig
      refine ihSE _ _ hs ?_
      intro q hq
      rw [List.mem_singleton.mp hq]
      exact ⟨rfl, hCfg⟩
    · -- checkConfigActions
      intro s c hs
      unfold checkConfigActions; dsimp only
      apply RFrame.foldl_inv
      · intro s x hs
        split
        · exact ihCA _ _ _ hs
        · exact hs
      · apply h.popOrder
        split
        · split
          · exact ihDC _ _ hs
          · split
            · exact ihDC _ _ hs
            · exact h.panic _ _ hs
        · exact hs
    · -- checkConfigAction
      intro s c id hs
      unfold checkConfigAction; dsimp only
      have h1 := fun r => h.setRepl s r hs
      repeat' split
      all_goals first | exact hs | exact h1 _ | exact ihDC _ _ (h1 _)
    · -- setCommitIndexL
      intro s i hs hi
      unfold setCommitIndexL
      extract_lets s1 ready r s2 s3
      have h2 : Inv s2 := h.commitIdx _ i (h.commitLog _ i hs) hi
      have h3 : Inv s3 := by
        unfold s3; split
        · exact ihCAs _ _ h2
        · exact h2
      split
      · split
        · refine h.ldrQ _ _ (RFrame.foldl_inv _
            (fun x t hx => h.reply' _ _ _ hx (fun _ => G_of_harmless (harmless_config _))) _ _ h3) ?_
          rfl
        · exact ihCAs _ _ h3
      · exact h3
    · -- onMajorityCommit
      intro s hs
      unfold onMajorityCommit; dsimp only
      have h1 := h.panic s "nil.majorityMatchIndex" hs
      have hc : ∀ site, (s.panic site).commitIndex = s.commitIndex := fun site => (panic_fields s site).2.2.2.1
      split
      · split
        · rename_i hgt
          exact h.notifyFlr _ (h.applyL _ (ihSC _ _ hs hgt.1))
        · exact hs
      · split
        · rename_i hgt
          exact h.notifyFlr _ (h.applyL _ (ihSC _ _ h1 (by rw [hc] at hgt; rw [hc]; exact hgt.1)))
        · exact h1

theorem storeEntry_inv (hCfg : P etConfig "") (f : Nat) (s : Node) (b) (hs : Inv s) (hb : Internal P b) :
    Inv (storeEntry f s b) := (h.block hCfg f).1 s b hs hb
theorem checkConfigActions_inv (hCfg : P etConfig "") (f : Nat) (s : Node) (c) (hs : Inv s) :
    Inv (checkConfigActions f s 0 c) := (h.block hCfg f).2.2.2.2.1 s c hs
theorem checkConfigAction_inv (hCfg : P etConfig "") (f : Nat) (s : Node) (c id) (hs : Inv s) :
    Inv (checkConfigAction f s 0 c id) := (h.block hCfg f).2.2.2.2.2.1 s c id hs
theorem onMajorityCommit_inv (hCfg : P etConfig "") (f : Nat) (s : Node) (hs : Inv s) :
    Inv (onMajorityCommit f s) := (h.block hCfg f).2.2.2.2.2.2.2 s hs

omit h in
theorem validateTransfer_notVal (s : Node) (target : Nat) : ¬ IsVal (s.validateTransfer target) := by
  have key : ∀ r : String, hd r ≠ some 'v' → ¬ IsVal r := fun r hr hv => hr (isVal_hd hv)
  unfold Node.validateTransfer
  repeat' split
  all_goals exact key _ (by decide)

theorem onTransfer_inv (s : Node) (t g : Nat) (hs : Inv s) (hD : t ≠ 0 → D t) : Inv (s.onTransfer t g) := by
  unfold Node.onTransfer; dsimp only
  split
  · exact h.reply' _ _ _ hs (fun ht => ⟨validateTransfer_notVal s g, fun _ => hD ht⟩)
  · exact h.tryTransfer _ (h.ldrQ _ _ hs rfl)

theorem replyTransfer_inv (hCfg : P etConfig "") (s : Node) (r : String) (hs : Inv s) (hr : Harmless r) :
    Inv (s.replyTransfer r) := by
  unfold Node.replyTransfer
  exact h.checkConfigActions_inv hCfg _ _ _ (h.transferReply _ _ hs (G_of_harmless hr))

theorem onTimeoutNowResult_inv (hCfg : P etConfig "") (s : Node) (src : Nat) (e : Bool) (r : Nat) (hs : Inv s) :
    Inv (s.onTimeoutNowResult src e r) := by
  unfold Node.onTimeoutNowResult
  extract_lets l0 t0 s1 s2 l1 t1
  have h0 : Inv s1 := h.ldrQ _ _ hs rfl
  have h2 : Inv s2 := by
    unfold s2
    split
    · split
      · exact h.setRepl _ _ h0
      · exact h0
    · exact h.panic _ _ h0
  split
  · split
    · exact h.tryTransfer _ h2
    · exact h2
  · split
    · split
      · exact h.replyTransfer_inv hCfg _ _ h0 harmless_error
      · exact h.tryTransfer _ h0
    · exact h.ldrQ _ _ h0 rfl

theorem leaderInit_inv (hCfg : P etConfig "") (hNop : P etNop "") (s : Node) (hs : Inv s) : Inv s.leaderInit := by
  unfold Node.leaderInit; dsimp only
  apply h.storeEntry_inv hCfg
  · apply h.checkConfigActions_inv hCfg
    apply RFrame.foldl_inv
    · intro s x hs
      split
      · exact hs
      · exact h.addReplication _ _ hs
    · exact h.ldrNil _ _ (h.assert _ _ _ hs) rfl
  · intro q hq
    rw [List.mem_singleton.mp hq]
    exact ⟨rfl, hNop⟩

theorem onWaitForStable_inv (s : Node) (t : Nat) (hs : Inv s) : Inv (s.onWaitForStable t) := by
  unfold Node.onWaitForStable
  split
  · exact h.reply' _ _ _ hs (fun _ => G_of_harmless (harmless_config _))
  · exact h.ldrQ _ _ hs rfl

theorem replUpdLoop_inv (hCfg : P etConfig "") (us : List ReplUpdate) (hus : NoCompact us) :
    ∀ (s : Node) (f : UpdFlags), Inv s → f.removeLTEU = false →
      Inv (replUpdLoop s f us).1 ∧ (replUpdLoop s f us).2.removeLTEU = false := by
  induction us with
  | nil => intro s f hs hf; exact ⟨hs, hf⟩
  | cons u us ih =>
    intro s f hs hf
    have hus' : NoCompact us := fun x hx => hus x (List.mem_cons_of_mem _ hx)
    have hu := hus u (List.mem_cons_self ..)
    unfold replUpdLoop
    split
    · exact ih hus' s f hs hf
    · split
      · exact ih hus' s f hs hf
      · rename_i st hst
        split
        · rename_i v hv
          dsimp only
          have h1 : Inv (s.setRepl { st with matchIndex := v }) := h.setRepl _ _ hs
          have := ih hus' (if ¬ st.node.voter = true ∧ st.node.action ≠ actNone
              then checkConfigAction (fuelFor 0) (s.setRepl { st with matchIndex := v }) 0
                (s.setRepl { st with matchIndex := v }).configs.latest st.id
              else s.setRepl { st with matchIndex := v }) { f with matchU := true }
            (by
              split
              · exact h.checkConfigAction_inv hCfg _ _ _ _ h1
              · exact h1) hf
          simpa using this
        · rename_i v hv
          exact absurd hv (hu v)
        · rename_i v hv
          exact ih hus' _ { f with noContactU := true } (h.setRepl _ _ hs) hf
        · rename_i v hv
          exact ⟨h.setTerm _ _ (h.setLeader _ _ (h.setRole _ _ hs)), hf⟩

theorem checkReplUpdates_inv (hCfg : P etConfig "") (us : List ReplUpdate) (hus : NoCompact us) (s : Node)
    (hs : Inv s) : Inv (s.checkReplUpdates us) := by
  unfold Node.checkReplUpdates
  extract_lets r s1 f s2 s3 s4
  obtain ⟨k1, k2⟩ := h.replUpdLoop_inv hCfg us hus s {} hs rfl
  split
  · exact k1
  · have h2 : Inv s2 := by unfold s2; split; exact h.onMajorityCommit_inv hCfg _ _ k1; exact k1
    have h3 : Inv s3 := by
      unfold s3; split
      · exact h.checkQuorum _ h2
      · exact h2
    have e4 : s4 = s3 := by
      unfold s4
      rw [if_neg]
      intro hc
      have : f.removeLTEU = true := hc.1
      have k2' : f.removeLTEU = false := k2
      rw [k2'] at this; cases this
    rw [e4]
    split
    · exact h.tryTransfer _ h3
    · exact h3

theorem initRole_inv (hCfg : P etConfig "") (hNop : P etNop "") (s : Node) (hs : Inv s) : Inv s.initRole := by
  unfold Node.initRole
  split
  · exact hs
  · exact h.startElection _ hs
  · exact h.leaderInit_inv hCfg hNop _ hs

theorem settle_inv (hCfg : P etConfig "") (hNop : P etNop "") (f : Nat) (s : Node) (c : Role) (hs : Inv s) :
    Inv (settle f s c) := by
  induction f generalizing s c with
  | zero => exact hs
  | succ n ih =>
    unfold settle
    split
    · exact hs
    · exact ih _ _ (h.initRole_inv hCfg hNop _ (h.releaseRole _ _ hs))

omit h in
theorem harmless_takeSnapshot : Harmless "inProgress:takeSnapshot" := by
  constructor
  · exact fun hv => absurd (isVal_hd hv) (by decide)
  · intro hdf
    rcases hdf with ⟨l, e⟩ | e | e | e
    · have := congrArg hd e; rw [hd_notLeaderStr] at this; revert this; decide
    all_goals (revert e; decide)

/-- **every case of `handle`** except a client batch and an append request, for the operations of the `_partial`
model; `D` must allow a definite rejection of the task the operation brings in -/
theorem handle_inv (hCfg : P etConfig "") (s : Node) (op : Op) (hok : OpOK2 op)
    (hne : ∀ b, op ≠ .newEntries b) (happ : ∀ q, op ≠ .append q)
    (hD : ∀ t ∈ TL.submittedRaw op, t ≠ 0 → D t) (hs : Inv s) : Inv (s.handle op) := by
  obtain ⟨hok1, hok2, hok3⟩ := hok
  cases op <;> unfold Node.handle <;> dsimp only
  case vote q => exact h.rpcDone _ _ _ (h.onVoteRequest _ _ hs)
  case append q => exact absurd rfl (happ q)
  case install q => exact absurd hok1 (by simp [OpOK])
  case timeoutNow => exact h.rpcDone _ _ _ (h.onTimeoutNow _ hs)
  case identity a b c => exact h.rpcReply _ _ hs
  case disconnected n =>
    split
    · exact h.setLeader _ _ hs
    · exact hs
  case timeout =>
    split
    · exact h.followerTimeout _ hs
    · exact h.startElection _ hs
    · exact h.checkQuorum _ hs
  case newEntries b => exact absurd rfl (hne b)
  case changeConfig => exact absurd rfl (hok3 _ _)
  case takeSnapshot t th =>
    unfold Node.onTakeSnapshot
    split
    · exact h.reply' _ _ _ hs (fun _ => G_of_harmless harmless_takeSnapshot)
    · exact h.snapPending _ _ hs
  case snapRun => exact absurd hok1 (by simp [OpOK])
  case snapTaken => exact absurd hok1 (by simp [OpOK])
  case waitStable t =>
    split
    · exact h.onWaitForStable_inv _ _ hs
    · refine h.reply' _ _ _ hs (fun ht => ⟨?_, fun _ => hD t (List.mem_singleton.mpr rfl) ht⟩)
      rw [notLeader_eq]; exact definite_not_val (definite_notLeader_false _)
  case transfer t g =>
    split
    · exact h.onTransfer_inv _ _ _ hs (hD t (List.mem_singleton.mpr rfl))
    · refine h.reply' _ _ _ hs (fun ht => ⟨?_, fun _ => hD t (List.mem_singleton.mpr rfl) ht⟩)
      rw [notLeader_eq]; exact definite_not_val (definite_notLeader_false _)
  case voteResult e t r =>
    split
    · exact h.onVoteResult _ _ _ _ hs
    · exact hs
  case replUpdates us =>
    split
    · exact h.checkReplUpdates_inv hCfg us hok1 _ hs
    · exact hs
  case transferTimeout =>
    split
    · exact h.replyTransfer_inv hCfg _ _ hs harmless_timeout
    · exact hs
  case timeoutNowResult a b c =>
    split
    · exact h.onTimeoutNowResult_inv hCfg _ _ _ _ hs
    · exact hs
  case newTermTimeout =>
    split
    · exact h.tryTransfer _ (h.ldrQ _ _ hs rfl)
    · exact hs
  case shutdown => exact absurd hok1 (by simp [OpOK])

end RClosed

/-! ## Part 3: the instance -/

/-- the item types the recording state machine answers with a value -/
def isValTyp (typ : Nat) : Prop := typ = etRead ∨ typ = etDirtyRead ∨ typ = etUpdate

instance (typ : Nat) : Decidable (isValTyp typ) := by unfold isValTyp; infer_instance

theorem itemStep_replies (s : Node) (q : QItem) :
    (C12.itemStep s q).replies = s.replies ++
      mkReply? q.task (if isValTyp q.typ then valStr (C12.itemStep s q).fsm.applied.length else "ok") := by
  unfold C12.itemStep mkReply? isValTyp valStr
  simp only [reply_eq, Node.withFsm, Node.assert, panic_eq]
  cases q.toEntry.config? <;> dsimp only <;> (repeat' split) <;> first | rfl | simp_all

/-- an answer given by the FSM goroutine while it works through `items` over the log `L`, the applied index going
from `lo` to `hi`: it belongs to an item; it is `ok`, or the length of the applied sequence at an index `k` — the
item's index for an update, the index before for a read -/
def NewRep (L : List Entry) (lo hi : Nat) (items : List QItem) (r : Reply) : Prop :=
  ∃ q ∈ items, q.task = r.task ∧ q.task ≠ 0 ∧
    ((¬ isValTyp q.typ ∧ r.result = "ok") ∨
     (isValTyp q.typ ∧ ∃ k, lo ≤ k ∧ k ≤ hi ∧ r.result = valStr (ups (L.take k)).length ∧ q.index ≤ k + 1 ∧
        (q.typ = etUpdate → k = q.index ∧ L[k - 1]? = some q.toEntry)))

theorem NewRep.mono {L : List Entry} {lo lo' hi hi' : Nat} {items items' : List QItem} {r : Reply}
    (h : NewRep L lo hi items r) (h1 : lo' ≤ lo) (h2 : hi ≤ hi') (h3 : ∀ q ∈ items, q ∈ items') :
    NewRep L lo' hi' items' r := by
  obtain ⟨q, hq, ht, h0, hc⟩ := h
  refine ⟨q, h3 q hq, ht, h0, ?_⟩
  rcases hc with hc | ⟨hv, k, k1, k2, k3⟩
  · exact Or.inl hc
  · exact Or.inr ⟨hv, k, by omega, by omega, k3⟩

theorem itemStep_rep (L : List Entry) (s : Node) (q : QItem) (hs : PW m L s)
    (hq : isLogEntryTyp q.typ = true → L[q.index - 1]? = some q.toEntry)
    (hp : (C12.itemStep s q).panicked = none) :
    s.panicked = none ∧ s.fsm.index ≤ (C12.itemStep s q).fsm.index ∧
    ∀ r ∈ (C12.itemStep s q).replies, r ∈ s.replies ∨
      NewRep L s.fsm.index (C12.itemStep s q).fsm.index [q] r := by
  have hP := pw_itemStep L s q hs hq hp
  obtain ⟨_, _, _, b4, _⟩ := hP
  have hp' := hp
  rw [itemStep_panicked] at hp'
  have hidx : (q.index == s.fsm.index + 1) = true := Order.assert_true hp'
  have hps : s.panicked = none := by
    unfold Node.assert at hp'; rw [if_pos hidx] at hp'; exact hp'
  have hqi : q.index = s.fsm.index + 1 := by simpa using hidx
  have hidx' := itemStep_index s q
  have hmono : s.fsm.index ≤ (C12.itemStep s q).fsm.index := by
    rw [hidx']; split <;> omega
  refine ⟨hps, hmono, fun r hr => ?_⟩
  rw [itemStep_replies] at hr
  rcases List.mem_append.mp hr with hr | hr
  · exact Or.inl hr
  · right
    unfold mkReply? at hr
    split at hr
    · cases hr
    · rename_i h0
      have hr' := List.mem_singleton.mp hr
      refine ⟨q, List.mem_singleton.mpr rfl, by rw [hr'], h0, ?_⟩
      by_cases hv : isValTyp q.typ
      · right
        refine ⟨hv, (C12.itemStep s q).fsm.index, hmono, Nat.le_refl _, ?_, ?_, ?_⟩
        · rw [hr', if_pos hv, b4]
        · rw [hidx']; split <;> omega
        · intro hu
          have hlt : isLogEntryTyp q.typ = true := by rw [hu]; decide
          rw [hidx', if_pos hlt]
          exact ⟨rfl, hq hlt⟩
      · left
        exact ⟨hv, by rw [hr', if_neg hv]⟩

theorem items_rep (L : List Entry) (items : List QItem) : ∀ (s : Node), PW m L s →
    (∀ q ∈ items, isLogEntryTyp q.typ = true → L[q.index - 1]? = some q.toEntry) →
    (s.fsmApplyItems items).panicked = none →
    s.panicked = none ∧ s.fsm.index ≤ (s.fsmApplyItems items).fsm.index ∧
    ∀ r ∈ (s.fsmApplyItems items).replies, r ∈ s.replies ∨
      NewRep L s.fsm.index (s.fsmApplyItems items).fsm.index items r := by
  induction items with
  | nil => intro s _ _ hp; exact ⟨hp, Nat.le_refl _, fun r hr => Or.inl hr⟩
  | cons q qs ih =>
    intro s hs hq hp
    rw [C12.fsmApplyItems_cons] at hp ⊢
    have hP1 := pw_itemStep L s q hs (hq q (List.mem_cons_self ..))
    obtain ⟨p1, m1, r1⟩ := ih (C12.itemStep s q) hP1 (fun x hx => hq x (List.mem_cons_of_mem _ hx)) hp
    obtain ⟨p0, m0, r0⟩ := itemStep_rep L s q hs (hq q (List.mem_cons_self ..)) p1
    refine ⟨p0, Nat.le_trans m0 m1, fun r hr => ?_⟩
    rcases r1 r hr with hr | hr
    · rcases r0 r hr with hr | hr
      · exact Or.inl hr
      · exact Or.inr (hr.mono (Nat.le_refl _) m1 (fun x hx => by
          rw [List.mem_singleton.mp hx]; exact List.mem_cons_self ..))
    · exact Or.inr (hr.mono m0 (Nat.le_refl _) (fun x hx => List.mem_cons_of_mem _ hx))

/-- **`fsmApply`**: unless an assertion failed, every answer it gives belongs to one of the items handed over -/
theorem fsmApply_rep (s : Node) (items : List QItem) (hs : FN m s)
    (hq : s.panicked = none →
      ∀ q ∈ items, isLogEntryTyp q.typ = true → s.log.entries[q.index - 1]? = some q.toEntry)
    (hp : (s.fsmApply items).panicked = none) :
    s.fsm.index ≤ (s.fsmApply items).fsm.index ∧
    ∀ r ∈ (s.fsmApply items).replies, r ∈ s.replies ∨
      NewRep s.log.entries s.fsm.index (s.fsmApply items).fsm.index items r := by
  revert hp
  unfold Node.fsmApply
  split
  · exact fun hp => absurd hp (panic_panicked_ne _ _)
  · split
    · exact fun hp => absurd hp (panic_panicked_ne _ _)
    · extract_lets front s1 s2
      intro hp2
      have hc : (s2.fsm.index == s2.commitIndex) = true := Order.assert_true hp2
      have e2 : s2.assert (s2.fsm.index == s2.commitIndex) "fsm.assertCommit" = s2 := by
        unfold Node.assert; rw [if_pos hc]
      rw [e2] at hp2 ⊢
      have hst : s.panicked = none := by
        apply Classical.byContradiction
        intro hne
        have h1 : s1.panicked ≠ none := C15.panicked_closed.fsmApplyLogTo_inv s _ hne
        exact (C15.panicked_closed.fsmApplyItems_inv s1 items h1) hp2
      have P0 : PW s.fsm.index s.log.entries s := fun hp0 =>
        ⟨rfl, (hs hp0).2.1, (hs hp0).1.len, (hs hp0).1.applied, Nat.le_refl _⟩
      have P1 : PW s.fsm.index s.log.entries s1 := pw_applyLogTo _ s _ P0
      obtain ⟨p1, m1, r1⟩ := items_rep s.log.entries items s1 P1 (hq hst) hp2
      have hm0 : s.fsm.index ≤ s1.fsm.index := (P1 p1).2.2.2.2
      have hr1 : s1.replies = s.replies := C07.fsmApplyLogTo_replies s _
      refine ⟨Nat.le_trans hm0 m1, fun r hr => ?_⟩
      rcases r1 r hr with hr | hr
      · exact Or.inl (by rw [← hr1]; exact hr)
      · exact Or.inr (hr.mono hm0 (Nat.le_refl _) (fun x hx => hx))

/-- what is known about the submissions a node may answer: task, type, payload, and the last log index of the node
when the submission was delivered to it -/
abbrev Known := Nat → Nat → String → Nat → Prop

/-- the value answer `n` to task `t` in state `s`: the task is a known submission of a type that is answered with a
value, and `n` is the number of update entries among the first `k` log entries, `k` within the applied index; for an
update the entry at `k` carries its payload; unless it is a dirty read, `k` is not below the last log index at
delivery -/
def ValOK (K : Known) (s : Node) (t n : Nat) : Prop :=
  ∃ typ d lb, K t typ d lb ∧ isValTyp typ ∧
    ∃ k, k ≤ s.fsm.index ∧ n = (ups (s.log.entries.take k)).length ∧
      (typ = etUpdate → 1 ≤ k ∧ ∃ e, s.log.entries[k - 1]? = some e ∧ e.typ = etUpdate ∧ e.data = d) ∧
      (typ ≠ etDirtyRead → lb ≤ k)

/-- an answer recorded in this step is in order: a value is `ValOK`; a definite rejection went to a task in `D` -/
def RepOK (K : Known) (D : Nat → Prop) (s : Node) (r : Reply) : Prop :=
  (∀ n, r.result = valStr n → ValOK K s r.task n) ∧ (Definite r.result → D r.task)

theorem ValOK.mono {K : Known} {s s' : Node} {t n : Nat} (h : ValOK K s t n) (hi : s.fsm.index ≤ s'.fsm.index)
    (hl : s'.log.entries.take s.fsm.index = s.log.entries.take s.fsm.index) : ValOK K s' t n := by
  obtain ⟨typ, d, lb, hK, hv, k, k1, k2, k3, k4⟩ := h
  have htk : s'.log.entries.take k = s.log.entries.take k := by
    have := congrArg (List.take k) hl
    rw [List.take_take, List.take_take, Nat.min_eq_left k1] at this
    exact this
  refine ⟨typ, d, lb, hK, hv, k, Nat.le_trans k1 hi, by rw [htk]; exact k2, fun hu => ?_, k4⟩
  obtain ⟨hk, e, he, h1, h2⟩ := k3 hu
  refine ⟨hk, e, ?_, h1, h2⟩
  have := congrArg (fun l => l[k - 1]?) htk
  simp only [List.getElem?_take] at this
  rw [if_pos (by omega), if_pos (by omega)] at this
  rw [this]; exact he

theorem RepOK.mono {K : Known} {D : Nat → Prop} {s s' : Node} {r : Reply} (h : RepOK K D s r)
    (hi : s.fsm.index ≤ s'.fsm.index)
    (hl : s'.log.entries.take s.fsm.index = s.log.entries.take s.fsm.index) : RepOK K D s' r :=
  ⟨fun n hn => (h.1 n hn).mono hi hl, h.2⟩

/-- the within-step invariant, unless the step has failed -/
structure WIp (L0 : List Entry) (K : Known) (D : Nat → Prop) (s : Node) : Prop where
  /-- the state machine holds the update payloads of the applied log prefix -/
  fsm : FsmOK 0 s
  lw : LW s
  /-- every log-type queue item is the log entry at its index -/
  qok : QOK s
  /-- the log is `L0` followed by entries that are no updates -/
  log : ∃ es, s.log.entries = L0 ++ es ∧ ups es = []
  /-- every queued task is a known submission, delivered when the log was shorter than the item's index -/
  qk : ∀ q ∈ s.ldr.queue, q.task ≠ 0 → ∃ lb, K q.task q.typ q.data lb ∧ lb < q.index
  rep : ∀ r ∈ s.replies, RepOK K D s r

def WI (L0 : List Entry) (K : Known) (D : Nat → Prop) (s : Node) : Prop := s.panicked = none → WIp L0 K D s

theorem WI.fl {L0 : List Entry} {K : Known} {D : Nat → Prop} {s : Node} (h : WI L0 K D s) : FL 0 s :=
  fun hp => ⟨(h hp).fsm, (h hp).lw, (h hp).qok⟩

theorem wi_frame {L0 : List Entry} {K : Known} {D : Nat → Prop} {s s' : Node} (h : WI L0 K D s) (hw : WF s s') :
    WI L0 K D s' := by
  intro hp
  obtain ⟨f, w, c, l, k, r⟩ := h (hw.mono hp)
  have e := hw.same
  unfold wobs at e
  simp only [Prod.mk.injEq] at e
  obtain ⟨e1, e2, e3, e4, e5, e6, e7⟩ := e
  refine ⟨⟨by rw [e5, e4]; exact f.le, by rw [e5, e1]; exact f.len, by rw [e5, e1]; exact f.applied, Nat.zero_le _⟩,
    ⟨by rw [e2]; exact w.1, by rw [e3, e1]; exact w.2⟩, ?_, by rw [e1]; exact l, by rw [e7]; exact k, ?_⟩
  · intro q hq ht
    rw [e1]; exact c q (by rw [← e7]; exact hq) ht
  · intro x hx
    rw [e6] at hx
    exact (r x hx).mono (by rw [e5]; exact Nat.le_refl _) (by rw [e1])

theorem appendEntry_more (s : Node) (e : Entry) :
    (s.appendEntry e).replies = s.replies ∧ (s.appendEntry e).ldr = s.ldr ∧ (s.appendEntry e).fsm = s.fsm ∧
    (s.appendEntry e).log.entries = s.log.entries ++ [e] := by
  unfold Node.appendEntry
  extract_lets a roll
  obtain ⟨a1, _, _, _, a5, a6, a7, _⟩ := assert_fields s (e.index == s.lastLogIndex + 1) "assert.appendEntry"
  refine ⟨a6, a7, a5, ?_⟩
  show (a.log.append e roll).entries = _
  rw [(append_parts a.log e roll).2, a1]

/-- **the instance**: the within-step invariant is closed under the guarded primitives; the generic part of a step
pushes only items that are no updates -/
theorem wi_closed (L0 : List Entry) (K : Known) (D : Nat → Prop) :
    RClosed (fun typ _ => typ ≠ etUpdate) D (WI L0 K D) where
  frame := fun _ _ hs hw => wi_frame hs hw
  reply := fun s t r hs ht hg => by
    intro hp
    obtain ⟨a1, a2, _, a4, a5, a6, a7, _⟩ := reply_fields s t r
    rw [a6] at hp
    obtain ⟨f, w, c, l, k, rp⟩ := hs hp
    refine ⟨⟨by rw [a5, a4]; exact f.le, by rw [a5, a1]; exact f.len, by rw [a5, a1]; exact f.applied, Nat.zero_le _⟩,
      ⟨by rw [a1]; exact w.1, by rw [a2, a1]; exact w.2⟩, ?_, by rw [a1]; exact l, by rw [a7]; exact k, ?_⟩
    · intro q hq hqt
      rw [a1]; exact c q (by rw [← a7]; exact hq) hqt
    · intro x hx
      rw [reply_replies s t r ht] at hx
      rcases List.mem_append.mp hx with hx | hx
      · exact (rp x hx).mono (by rw [a5]; exact Nat.le_refl _) (by rw [a1])
      · rw [List.mem_singleton.mp hx]
        exact ⟨fun n hn => absurd ⟨n, hn⟩ hg.1, hg.2⟩
  ldrNil := fun s l hs hl => by
    intro hp
    obtain ⟨f, w, c, lg, k, rp⟩ := hs hp
    have hq0 : ∀ q, q ∈ (s.withLdr l).ldr.queue → False := by
      intro q hq
      rw [show (s.withLdr l).ldr.queue = l.queue from rfl, hl] at hq
      cases hq
    exact ⟨⟨f.le, f.len, f.applied, f.mono⟩, w, fun q hq _ => (hq0 q hq).elim, lg,
      fun q hq _ => (hq0 q hq).elim, rp⟩
  pushLog := fun s q hs hP hq0 hlt => by
    have hfl := fl_pushLog (m := 0) s q hs.fl
    intro hp
    obtain ⟨f', w', c'⟩ := hfl hp
    obtain ⟨b1, b2, b3, b4⟩ := appendEntry_more (s.withLdr { s.ldr with queue := s.ldr.queue ++ [q] }) q.toEntry
    have hps : s.panicked = none := by
      apply Classical.byContradiction
      intro hne
      have hne' : (s.withLdr { s.ldr with queue := s.ldr.queue ++ [q] }).panicked ≠ none := hne
      exact (C15.panicked_closed.appendEntry_inv _ _ hne') hp
    obtain ⟨f, w, c, ⟨es, l1, l2⟩, k, rp⟩ := hs hps
    refine ⟨f', w', c', ⟨es ++ [q.toEntry], ?_, ?_⟩, ?_, ?_⟩
    · rw [b4]; show s.log.entries ++ _ = _; rw [l1, List.append_assoc]
    · rw [ups_append, l2, ups_single, if_neg (show ¬ q.toEntry.typ = etUpdate from hP)]; rfl
    · intro x hx hxt
      rw [b2] at hx
      rcases List.mem_append.mp (show x ∈ s.ldr.queue ++ [q] from hx) with hx | hx
      · exact k x hx hxt
      · rw [List.mem_singleton.mp hx] at hxt; exact absurd hq0 hxt
    · intro x hx
      rw [b1] at hx
      refine (rp x hx).mono (by rw [b3]; exact Nat.le_refl _) ?_
      rw [b4]
      exact List.take_append_of_le_length f.len
  pushOther := fun s q hs hP hq0 hlt => by
    have hfl := fl_pushOther (m := 0) s q hs.fl hlt
    intro hp
    obtain ⟨f', w', c'⟩ := hfl hp
    obtain ⟨f, w, c, lg, k, rp⟩ := hs hp
    refine ⟨f', w', c', lg, ?_, rp⟩
    intro x hx hxt
    rcases List.mem_append.mp (show x ∈ s.ldr.queue ++ [q] from hx) with hx | hx
    · exact k x hx hxt
    · rw [List.mem_singleton.mp hx] at hxt; exact absurd hq0 hxt
  commitIdx := fun s i hs hi => by
    have hfl := fl_setCommitIndexR (m := 0) s i hs.fl hi
    obtain ⟨a1, a2, a3, a4⟩ := setCommitIndexR_nobs s i
    have hk := (TL.key_eq (TL.fk_setCommitIndexR s i).same).1
    intro hp
    obtain ⟨f', w', c'⟩ := hfl hp
    rw [C15.setCommitIndexR_panicked] at hp
    obtain ⟨f, w, c, lg, k, rp⟩ := hs hp
    refine ⟨f', w', c', by rw [a1]; exact lg, by rw [a4]; exact k, ?_⟩
    intro x hx
    rw [hk] at hx
    exact (rp x hx).mono (by rw [a3]; exact Nat.le_refl _) (by rw [a1])
  applyL := fun s hs => by
    have hfl := fl_applyL (m := 0) s hs.fl
    intro hp
    obtain ⟨f', w', c'⟩ := hfl hp
    revert hp f' w' c'
    unfold Node.applyCommittedL
    extract_lets sp l0 s1
    intro hp f' w' c'
    have hlog : (s1.fsmApply sp.1).log = s1.log := fsmFrame_log.fsmApply_eq s1 sp.1
    have hldr : (s1.fsmApply sp.1).ldr = s1.ldr := fsmFrame_ldr.fsmApply_eq s1 sp.1
    have hps : s.panicked = none := by
      apply Classical.byContradiction
      intro hne
      exact (C15.panicked_closed.fsmApply_inv s1 sp.1 (show s1.panicked ≠ none from hne)) hp
    obtain ⟨f, w, c, lg, k, rp⟩ := hs hps
    have hfn1 : FN s.fsm.index s1 := fun _ => ⟨⟨f.le, f.len, f.applied, Nat.le_refl _⟩, w⟩
    obtain ⟨hm, hr⟩ := fsmApply_rep s1 sp.1 hfn1
      (fun _ q hq ht => c q (splitQueue_mem _ _ q (Or.inl hq)) ht) hp
    refine ⟨f', w', c', by rw [hlog]; exact lg, ?_, ?_⟩
    · intro q hq hqt
      rw [hldr] at hq
      exact k q (splitQueue_mem _ _ q (Or.inr hq)) hqt
    · intro x hx
      rcases hr x hx with hx | ⟨q, hq, hqt, h0, hcase⟩
      · exact (rp x hx).mono hm (by rw [hlog]; rfl)
      · · obtain ⟨lb, hK, hlb⟩ := k q (splitQueue_mem _ _ q (Or.inl hq)) h0
          rcases hcase with ⟨hnv, hres⟩ | ⟨hv, kk, k1, k2, k3, k4, k5⟩
          · exact ⟨fun n hn => absurd ⟨n, hres ▸ hn⟩ harmless_ok.1, fun hd => absurd (hres ▸ hd) harmless_ok.2⟩
          · refine ⟨fun n hn => ?_, fun hd => absurd ⟨_, k3⟩ (definite_not_val hd)⟩
            have hn' : n = (ups (s.log.entries.take kk)).length := valStr_inj (hn.symm.trans k3)
            rw [← hqt]
            refine ⟨q.typ, q.data, lb, hK, hv, kk, k2, by rw [hlog]; exact hn', fun hu => ?_, fun _ => by omega⟩
            obtain ⟨e1, e2⟩ := k5 hu
            refine ⟨by omega, q.toEntry, by rw [hlog]; exact e2, hu, rfl⟩

/-! ## Part 4: one step of a node, for the cluster-level proof -/

theorem WI.weaken {L0 : List Entry} {K : Known} {D D' : Nat → Prop} {s : Node} (h : WI L0 K D s)
    (hD : ∀ t, D t → D' t) : WI L0 K D' s := by
  intro hp
  obtain ⟨f, w, c, l, k, r⟩ := h hp
  exact ⟨f, w, c, l, k, fun x hx => ⟨(r x hx).1, fun hd => hD _ ((r x hx).2 hd)⟩⟩

/-- answers are added, nothing else changes -/
theorem wi_addReplies {L0 : List Entry} {K : Known} {D : Nat → Prop} {s : Node} (h : WI L0 K D s)
    (rs : List Reply) (hr : s.panicked = none → ∀ r ∈ rs, RepOK K D s r) : WI L0 K D (s.addReplies rs) := by
  intro hp
  have hp' : s.panicked = none := hp
  obtain ⟨f, w, c, l, k, r⟩ := h hp'
  refine ⟨⟨f.le, f.len, f.applied, f.mono⟩, w, c, l, k, fun x hx => ?_⟩
  rcases List.mem_append.mp (show x ∈ s.replies ++ rs from hx) with hx | hx
  · exact ⟨(r x hx).1, (r x hx).2⟩
  · exact ⟨(hr hp' x hx).1, (hr hp' x hx).2⟩

/-- the update payloads of a client batch, in order -/
def updData (b : List QItem) : List String := (b.filter (fun q => q.typ == etUpdate)).map (·.data)

theorem ups_assign (last term : Nat) (b : List QItem) :
    ups (((C03.assign last term b).filter (fun q => isLogEntryTyp q.typ)).map QItem.toEntry) = updData b := by
  induction b generalizing last with
  | nil => rfl
  | cons q qs ih =>
    unfold C03.assign updData
    simp only [List.filter_cons]
    by_cases hl : isLogEntryTyp q.typ = true
    · simp only [hl, if_true, List.map_cons]
      have := ih (last + 1)
      unfold updData at this
      by_cases hu : q.typ = etUpdate
      · have e : ups (QItem.toEntry { q with index := last + 1, term := term, cfg := q.cfg.map Config.payload } ::
            List.map QItem.toEntry (List.filter (fun q => isLogEntryTyp q.typ) (C03.assign (last + 1) term qs))) =
            q.data :: ups (List.map QItem.toEntry (List.filter (fun q => isLogEntryTyp q.typ) (C03.assign (last + 1) term qs))) := by
          unfold ups; simp [QItem.toEntry, hu]
        rw [e, this]; simp [hu]
      · have e : ups (QItem.toEntry { q with index := last + 1, term := term, cfg := q.cfg.map Config.payload } ::
            List.map QItem.toEntry (List.filter (fun q => isLogEntryTyp q.typ) (C03.assign (last + 1) term qs))) =
            ups (List.map QItem.toEntry (List.filter (fun q => isLogEntryTyp q.typ) (C03.assign (last + 1) term qs))) := by
          unfold ups; simp [QItem.toEntry, hu]
        rw [e, this]; simp [hu]
    · have hl' : isLogEntryTyp q.typ = false := by simpa using hl
      have hu : q.typ ≠ etUpdate := by intro he; rw [he] at hl'; revert hl'; decide
      simp only [hl', Bool.false_eq_true, if_false]
      have := ih last
      unfold updData at this
      rw [this]; simp [hu]

theorem mem_assign (last term : Nat) (b : List QItem) : ∀ x ∈ C03.assign last term b,
    last < x.index ∧ ∃ q ∈ b, x.task = q.task ∧ x.typ = q.typ ∧ x.data = q.data := by
  induction b generalizing last with
  | nil => intro x hx; simp [C03.assign] at hx
  | cons q qs ih =>
    intro x hx
    simp only [C03.assign, List.mem_cons] at hx
    rcases hx with hx | hx
    · rw [hx]; exact ⟨Nat.lt_succ_self _, q, List.mem_cons_self .., rfl, rfl, rfl⟩
    · obtain ⟨h1, y, hy, h2⟩ := ih _ x hx
      refine ⟨?_, y, List.mem_cons_of_mem _ hy, h2⟩
      split at h1 <;> omega

/-- what the cluster-level proof knows about a node before it takes a step -/
structure PreOK (K : Known) (pre : Node) : Prop where
  fsm : FsmOK 0 pre
  lw : LW pre
  qok : QOK pre
  qk : ∀ q ∈ pre.ldr.queue, q.task ≠ 0 → ∃ lb, K q.task q.typ q.data lb ∧ lb < q.index

/-- **summary of one step** (any operation but an append request) for the client ledger: every task still queued
is known; every answer of the step is in order (`RepOK`: a value answer is the length of the applied sequence at a
known item; a definite rejection went to a task the operation brought in); the log grew by entries that are no
updates — or, for a client batch that was stored, by entries whose update payloads are exactly those of the batch, in
order, and then the step gave no definite rejection at all -/
structure CStep (K : Known) (pre : Node) (op : Op) (post : Node) : Prop where
  queue : ∀ q ∈ post.ldr.queue, q.task ≠ 0 → ∃ lb, K q.task q.typ q.data lb ∧ lb < q.index
  rep : ∀ r ∈ post.replies, RepOK K (fun t => t ∈ TL.submittedRaw op) post r
  log : ∃ es, post.log.entries = pre.log.entries ++ es ∧
    (ups es = [] ∨ (∃ b, op = .newEntries b ∧ ups es = updData b ∧ ∀ r ∈ post.replies, ¬ Definite r.result))
  fsm : FsmOK 0 post

theorem wi_begin {K : Known} {D : Nat → Prop} {pre : Node} (h : PreOK K pre) (ra : List Nat) (ord : List (List Nat)) :
    WI pre.log.entries K D (pre.begin ra ord) :=
  fun _ => ⟨⟨h.fsm.le, h.fsm.len, h.fsm.applied, h.fsm.mono⟩, h.lw, h.qok, ⟨[], (List.append_nil _).symm, rfl⟩, h.qk,
    fun r hr => by cases hr⟩

theorem cstep_of_wi {K : Known} {pre post : Node} {op : Op}
    (h : WI pre.log.entries K (fun t => t ∈ TL.submittedRaw op) post) (hp : post.panicked = none) :
    CStep K pre op post := by
  obtain ⟨f, _, _, ⟨es, l1, l2⟩, k, r⟩ := h hp
  exact ⟨k, r, ⟨es, l1, Or.inl l2⟩, f⟩

theorem client_step_other {K : Known} (pre : Node) (op : Op) (ra : List Nat) (ord : List (List Nat))
    (hpre : PreOK K pre) (hok : OpOK2 op) (happ : ∀ q, op ≠ .append q) (hne : ∀ b, op ≠ .newEntries b)
    (hp : (pre.step op ra ord).panicked = none) : CStep K pre op (pre.step op ra ord) := by
  have hC := wi_closed pre.log.entries K (fun t => t ∈ TL.submittedRaw op)
  have hsd : op ≠ .shutdown := by
    intro he; rw [he] at hok; exact hok.1
  have h0 := wi_begin (D := fun t => t ∈ TL.submittedRaw op) hpre ra ord
  have h1 := hC.handle_inv (by decide) (pre.begin ra ord) op hok hne happ (fun t ht _ => ht) h0
  have h2 := hC.settle_inv (by decide) (by decide) 6 _ pre.role h1
  rw [← TL.step_eq_settle pre op ra ord hsd] at h2
  exact cstep_of_wi h2 hp

/-- a client batch delivered to a node that is not leader: every item is answered, nothing else happens -/
theorem client_step_reject {K : Known} (pre : Node) (b : List QItem) (ra : List Nat) (ord : List (List Nat))
    (hpre : PreOK K pre) (hr : pre.role ≠ .leader)
    (hKb : ∀ q ∈ b, q.task ≠ 0 → K q.task q.typ q.data pre.lastLogIndex) :
    CStep K pre (.newEntries b) (pre.step (.newEntries b) ra ord) := by
  have hst : pre.step (.newEntries b) ra ord = (pre.begin ra ord).rejectEntries b := by
    rw [TL.step_eq_settle pre _ ra ord (by intro h; cases h)]
    have hh : (pre.begin ra ord).handle (.newEntries b) = (pre.begin ra ord).rejectEntries b := by
      unfold Node.handle
      dsimp only
      rw [if_neg (show ¬ (pre.begin ra ord).role = .leader from hr)]
    rw [hh, C07.definite_rejection_not_leader]
    unfold settle
    exact if_pos rfl
  rw [hst, C07.definite_rejection_not_leader]
  have h0 := wi_begin (D := fun t => t ∈ TL.submittedRaw (.newEntries b)) hpre ra ord
  refine cstep_of_wi (wi_addReplies h0 _ (fun _ r hr => ?_)) rfl
  obtain ⟨q, hq, hrq⟩ := List.mem_flatMap.mp hr
  unfold mkReply? at hrq
  split at hrq
  · cases hrq
  · rename_i h0
    have hr' := List.mem_singleton.mp hrq
    have hD : q.task ∈ TL.submittedRaw (.newEntries b) := List.mem_map.mpr ⟨q, hq, rfl⟩
    rw [hr']
    unfold C07.rejectReply
    split
    · rename_i hd
      have hv : IsVal s!"val:{(pre.begin ra ord).fsm.applied.length}" := ⟨_, rfl⟩
      refine ⟨fun n hn => ?_, fun hdf => absurd hv (definite_not_val hdf)⟩
      have hn' : n = pre.fsm.applied.length := valStr_inj (hn.symm.trans rfl)
      refine ⟨q.typ, q.data, pre.lastLogIndex, hKb q hq h0, Or.inr (Or.inl hd), pre.fsm.index, Nat.le_refl _,
        ?_, fun hu => ?_, fun hnd => absurd hd hnd⟩
      · rw [hn']; show _ = (ups (pre.log.entries.take pre.fsm.index)).length
        rw [← hpre.fsm.applied]
      · rw [hd] at hu; exact absurd hu (by decide)
    · refine ⟨fun n hn => ?_, fun _ => hD⟩
      rw [notLeader_eq] at hn
      exact absurd ⟨n, hn⟩ (definite_not_val (definite_notLeader_false _))

theorem definite_nonVoterReply (s : Node) : Definite (C07.nonVoterReply s) := by
  unfold C07.nonVoterReply
  split
  · exact Or.inr (Or.inr (Or.inl rfl))
  · exact Or.inr (Or.inr (Or.inr rfl))

/-- a client batch delivered to a leader: the whole batch is rejected (transfer in progress, leader demoted or
removed) and nothing is stored, or the whole batch is stored and no definite rejection is given -/
theorem client_step_store {K : Known} (pre : Node) (b : List QItem) (ra : List Nat) (ord : List (List Nat))
    (hpre : PreOK K pre) (hr : pre.role = .leader) (hnc : NoCfg b)
    (hKb : ∀ q ∈ b, q.task ≠ 0 → K q.task q.typ q.data pre.lastLogIndex)
    (hp : (pre.step (.newEntries b) ra ord).panicked = none) :
    CStep K pre (.newEntries b) (pre.step (.newEntries b) ra ord) := by
  have hfuel : fuelFor b.length = (63 + 4 * b.length) + 1 := by unfold fuelFor; omega
  have hst : pre.step (.newEntries b) ra ord =
      settle 6 (storeEntry ((63 + 4 * b.length) + 1) (pre.begin ra ord) b) pre.role := by
    rw [TL.step_eq_settle pre _ ra ord (by intro h; cases h)]
    have hh : (pre.begin ra ord).handle (.newEntries b) = storeEntry (fuelFor b.length) (pre.begin ra ord) b := by
      unfold Node.handle
      dsimp only
      rw [if_pos (show (pre.begin ra ord).role = .leader from hr)]
    rw [hh, hfuel]
  have hge : 63 + 4 * b.length ≥ b.length := by omega
  rw [hst] at hp ⊢
  -- after the loop over the batch, relative to a base log `L0` and a set `D` of tasks that may be rejected
  have fin : ∀ (L0 : List Entry) (D : Nat → Prop), WI L0 K D (storeItems (63 + 4 * b.length) (pre.begin ra ord) b) →
      WI L0 K D (settle 6 (storeEntry ((63 + 4 * b.length) + 1) (pre.begin ra ord) b) pre.role) := by
    intro L0 D h1
    have hC := wi_closed L0 K D
    exact hC.settle_inv (by decide) (by decide) 6 _ pre.role
      (hC.storeEntry_tail (fun x hx => hC.onMajorityCommit_inv (by decide) _ x hx) _ b h1)
  have h0 := wi_begin (D := fun t => t ∈ TL.submittedRaw (.newEntries b)) hpre ra ord
  have hDq : ∀ q ∈ b, q.task ∈ TL.submittedRaw (.newEntries b) := fun q hq => List.mem_map.mpr ⟨q, hq, rfl⟩
  by_cases ht : (pre.begin ra ord).ldr.transfer.active = true
  · -- transfer in progress
    refine cstep_of_wi (fin _ _ ?_) hp
    rw [C07.definite_rejection_transfer _ _ b ht hge]
    refine wi_addReplies h0 _ (fun _ r hr => ?_)
    obtain ⟨q, hq, hrq⟩ := List.mem_flatMap.mp hr
    unfold mkReply? at hrq
    split at hrq
    · cases hrq
    · rw [List.mem_singleton.mp hrq]
      have hd : Definite "inProgress:transferLeadership" := Or.inr (Or.inl rfl)
      exact ⟨fun n hn => absurd ⟨n, hn⟩ (definite_not_val hd), fun _ => hDq q hq⟩
  · have ht' : (pre.begin ra ord).ldr.transfer.active = false := by simpa using ht
    by_cases hv : (pre.begin ra ord).ldr.node.voter = true
    · -- the batch is stored
      obtain ⟨a1, a2, _, a4, a5, a6, _⟩ := C03.leader_queue_matches_log _ (pre.begin ra ord) b hge ht' hv hnc
      have hfl : FL 0 (storeItems (63 + 4 * b.length) (pre.begin ra ord) b) :=
        (fl_block (m := 0) _).2.1 _ b (h0.fl)
      have h1 : WI (storeItems (63 + 4 * b.length) (pre.begin ra ord) b).log.entries K (fun _ => False)
          (storeItems (63 + 4 * b.length) (pre.begin ra ord) b) := by
        intro hp1
        obtain ⟨f, w, c⟩ := hfl hp1
        refine ⟨f, w, c, ⟨[], (List.append_nil _).symm, rfl⟩, fun q hq hq0 => ?_, fun r hr => ?_⟩
        · rw [a1] at hq
          rcases List.mem_append.mp hq with hq | hq
          · exact hpre.qk q hq hq0
          · obtain ⟨hlt, y, hy, e1, e2, e3⟩ := mem_assign _ _ b q hq
            refine ⟨pre.lastLogIndex, ?_, hlt⟩
            rw [e1, e2, e3]
            exact hKb y hy (by rw [← e1]; exact hq0)
        · rw [a6] at hr; cases hr
      have h2 := fin _ _ h1
      obtain ⟨f, _, _, ⟨es, l1, l2⟩, k, r⟩ := h2 hp
      refine ⟨k, fun x hx => ⟨(r x hx).1, fun hd => ((r x hx).2 hd).elim⟩,
        ⟨List.map QItem.toEntry (List.filter (fun q => isLogEntryTyp q.typ)
          (C03.assign (pre.begin ra ord).lastLogIndex (pre.begin ra ord).term b)) ++ es, ?_,
          Or.inr ⟨b, rfl, ?_, ?_⟩⟩, f⟩
      · rw [l1, a2, List.append_assoc]; rfl
      · rw [ups_append, l2, ups_assign, List.append_nil]
      · exact fun x hx hd => (r x hx).2 hd
    · -- the leader is no longer a voter
      have hv' : (pre.begin ra ord).ldr.node.voter = false := by simpa using hv
      refine cstep_of_wi (fin _ _ ?_) hp
      rw [C07.definite_rejection_nonvoter _ _ b ht' hv' hge]
      refine wi_addReplies h0 _ (fun _ r hr => ?_)
      obtain ⟨q, hq, hrq⟩ := List.mem_flatMap.mp hr
      unfold mkReply? at hrq
      split at hrq
      · cases hrq
      · rw [List.mem_singleton.mp hrq]
        have hd := definite_nonVoterReply (pre.begin ra ord)
        exact ⟨fun n hn => absurd ⟨n, hn⟩ (definite_not_val hd), fun _ => hDq q hq⟩

/-- **summary of one step that is not an append request**, for the operations of the `_partial` model -/
theorem client_step {K : Known} (pre : Node) (op : Op) (ra : List Nat) (ord : List (List Nat))
    (hpre : PreOK K pre) (hok : OpOK2 op) (happ : ∀ q, op ≠ .append q)
    (hKb : ∀ b, op = .newEntries b → ∀ q ∈ b, q.task ≠ 0 → K q.task q.typ q.data pre.lastLogIndex)
    (hp : (pre.step op ra ord).panicked = none) : CStep K pre op (pre.step op ra ord) := by
  by_cases hb : ∃ b, op = .newEntries b
  · obtain ⟨b, rfl⟩ := hb
    by_cases hr : pre.role = .leader
    · exact client_step_store pre b ra ord hpre hr (hok.2.1 b rfl) (hKb b rfl) hp
    · exact client_step_reject pre b ra ord hpre hr (hKb b rfl)
  · exact client_step_other pre op ra ord hpre hok happ (fun b he => hb ⟨b, he⟩) hp

/-- every answer is neither a value nor a definite rejection: closed under the primitives of `leader.release` -/
theorem harmless_base : RBase (fun _ => False) (fun s => ∀ r ∈ s.replies, Harmless r.result) where
  frame := fun s s' hs hw => by
    have e := hw.same
    unfold wobs at e
    simp only [Prod.mk.injEq] at e
    rw [e.2.2.2.2.2.1]; exact hs
  reply := fun s t r hs ht hg x hx => by
    rw [reply_replies s t r ht] at hx
    rcases List.mem_append.mp hx with hx | hx
    · exact hs x hx
    · rw [List.mem_singleton.mp hx]; exact ⟨hg.1, fun hd => hg.2 hd⟩
  ldrNil := fun _ _ hs _ => hs

/-- **an append request**: whatever the step answers to client tasks (a leader that steps down answers what it had
pending) is neither a value nor a definite rejection -/
theorem append_step_replies (pre : Node) (q : AppendReq) (ra : List Nat) (ord : List (List Nat)) :
    ∀ r ∈ (pre.step (.append q) ra ord).replies, Harmless r.result := by
  have hpost : pre.step (.append q) ra ord =
      settle 6 (((pre.begin ra ord).onAppendEntries q).rpcDone false true) pre.role := rfl
  have hk := (TL.key_eq ((TL.fk_onAppendEntries (pre.begin ra ord) q).trans (TL.fk_rpcDone _ false true)).same).1
  have h1 : ∀ r ∈ (((pre.begin ra ord).onAppendEntries q).rpcDone false true).replies, Harmless r.result := by
    rw [hk]; intro r hr; cases hr
  rw [hpost]
  by_cases hst : q.term < pre.term
  · have hh : (pre.begin ra ord).onAppendEntries q = (pre.begin ra ord).ret rStaleTerm :=
      C04.stale_append_refused _ q hst
    have hr : (((pre.begin ra ord).onAppendEntries q).rpcDone false true).role = pre.role := by
      rw [hh, (SameKey.rpcDone _ _ _).role]; rfl
    have e : settle 6 (((pre.begin ra ord).onAppendEntries q).rpcDone false true) pre.role =
        ((pre.begin ra ord).onAppendEntries q).rpcDone false true := by unfold settle; rw [if_pos hr]
    rw [e]; exact h1
  · have hf : (((pre.begin ra ord).onAppendEntries q).rpcDone false true).role = .follower := by
      rw [(SameKey.rpcDone _ _ _).role]
      exact onAppendEntries_role _ q hst
    rcases settle_follower_cases _ pre.role hf with e | e
    · rw [e]; exact h1
    · rw [e]; exact harmless_base.releaseRole _ _ h1

end ClientRel
end Raft
