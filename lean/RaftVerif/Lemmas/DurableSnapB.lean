/-
Durability of committed entries on the cluster systems WITH snapshots — helper lemmas for Props/C06Snap.lean, part B:
* `SnapBacked y v`       — the snapshot files on the disk of node `v` are replays of committed prefixes of its virtual
                            log, the newest one is at `snapIndex ≥ log.prev` (from Props/C09Sys3.lean);
* `DurablyCovered V y v ref k` — `KeepsS` + `SnapBacked` + the same at every crash image / after every restart the
                            system admits (`CrashAt`);
* `covered_later`        — a member of the acknowledging majority of a ledger entry durably covers, in every later state
                            of a run of `Raft.Snap4`, every root path through an ancestor of the entry;
* `leader_holds_later`   — leader completeness across states, on the virtual log;
* the install handler: `install_reply_success`, `install_trace_order`, `install_crash_point` (node level).
-/
import RaftVerif.Lemmas.DurableSnapA

namespace Raft
namespace DurableSnap
open Node Election LogRel Replication CommitRel Commit C02Sys C03Sys SnapRel SnapRelU SnapSim Snap Snap2 SnapInv SnapInv2
open SnapInst Snap3 SnapInst3 Snap4 SnapInst4 RestartSys DurableRel

/-! ### snapshot files -/

/-- **the snapshot files on the disk of node `v` back what its log no longer holds**: `log.prev ≤ snapIndex ≤
commitIndex`; `snapIndex` is the index of the newest file (which exists if `snapIndex > 0`); every file on disk has
`1 ≤ index ≤ snapIndex`, its content is the replay (update payloads, in order) of the first `index` entries of the node's
virtual log, every one of them committed, and it is the replay of the virtual log of EVERY node whose commit index covers
it -/
structure SnapBacked (y : Snap3.Sys) (v : Nat) : Prop where
  prev : (y.node v).log.prev ≤ (y.node v).snapIndex
  commit : (y.node v).snapIndex ≤ (y.node v).commitIndex
  head : (y.node v).snapIndex = (headOf (y.node v).durable.snaps).index
  headMem : 0 < (y.node v).snapIndex → headOf (y.node v).durable.snaps ∈ (y.node v).durable.snaps
  files : ∀ f ∈ (y.node v).durable.snaps, 1 ≤ f.index ∧ f.index ≤ (y.node v).snapIndex ∧
    (∀ k, 1 ≤ k → k ≤ f.index → Committed (view3 y).cs (k, termAt (y.vlog v) k)) ∧
    f.data = ups ((y.vlog v).take f.index) ∧
    ∀ j, f.index ≤ (y.node j).commitIndex → f.data = ups ((y.vlog j).take f.index)

theorem headOf_mem (l : List SnapFile) (h : 0 < (headOf l).index) : headOf l ∈ l := by
  cases l with
  | nil => exact absurd h (by decide)
  | cons a as => exact List.mem_cons_self ..

theorem snapBacked {V : List Nat} (hV : V.Nodup) {y : Snap3.Sys} (h : Reachable3 V y) (v : Nat) : SnapBacked y v := by
  have hI := (inv3_reachable hV h).1
  have so : SnapOK (y.vnode v) := hI.sinv.snap v
  have hhead : (y.node v).snapIndex = (headOf (y.node v).snapsDisk).index := so.head
  obtain ⟨⟨a1, a2⟩, _, _⟩ := C09Sys3.snapshot_agrees_with_log_partial hV y h v
  refine ⟨a1, a2, hhead, fun hpos => headOf_mem _ ?_, fun f hf => ?_⟩
  · show 0 < (headOf (y.node v).snapsDisk).index
    rw [← hhead]; exact hpos
  obtain ⟨b1, b2, _, b4, b5, b6⟩ := C09Sys3.snapshot_is_committed_prefix_partial hV y h v f (Or.inr hf)
  exact ⟨b1, b2, b4, b5, b6⟩

/-! ### every later state -/

/-- **node `v` of state `y` durably covers the first `k` entries of `ref`** — in `y` (`KeepsS`: flushed log above
`log.prev`, snapshot at or below; `SnapBacked`: that snapshot is the replay of a committed prefix), and whenever it dies:
for every crash transition of the system (`CrashAt y v d n y'`: the process dies at any storage point of an enabled
operation of stage 2 — with `NoCut`, the log on disk not stale — or at any storage point of the install handler, leaving the
disk `d`, and restarts as `n`; the state `y'` after the restart satisfies the side conditions)
* the disk image `d` covers them with the log `openStorage` works with (`C10.logOf d`): with `d.log` itself if that is
  not stale; if it is stale (the F18 window: the received snapshot file is on disk, the old log not yet reset) the
  newest snapshot file on `d` alone covers `k`;
* the restarted node holds them again: flushed, in log or snapshot; and keeps them in `y'`. -/
structure DurablyCovered (V : List Nat) (y : Snap3.Sys) (v : Nat) (ref : List Entry) (k : Nat) : Prop where
  keeps : KeepsS y v ref k
  backed : SnapBacked y v
  crash : ∀ d n y', CrashAt y v d n y' → Side4 V y' →
    Covers (C10.logOf d) d.snaps ref k ∧ (staleLog d = false → Covers d.log d.snaps ref k) ∧
    (staleLog d = true → k ≤ (headOf d.snaps).index) ∧
    k ≤ n.log.flushed ∧ Covers n.log n.snapsDisk ref k ∧ KeepsS y' v ref k ∧ SnapBacked y' v

section later
variable {V : List Nat} {x y : Snap3.Sys}

/-- the situation: `m` is a ledger entry of the reachable state `x`, `Q` its acknowledging majority, `ref` a root path of
`x`'s tree that holds the ancestor `(k, τ)` of `m` -/
structure Sit (V : List Nat) (x : Snap3.Sys) (m : Nat × Nat) (Q : List Nat) (ref : List Entry) (k τ : Nat) : Prop where
  hx : Reachable4 V x
  hm : m ∈ x.s2.cs.committed
  hQ : AckQuorum V (eview (view3 x).cs) m Q
  hp : Path x.s2.cs.T ref
  hh : Holds ref k τ
  hkm : Anc x.s2.cs.T (k, τ) m

theorem Sit.run {m : Nat × Nat} {Q : List Nat} {ref : List Entry} {k τ : Nat} (h : Sit V x m Q ref k τ)
    (hrun : Run4 V x y) : Sit V y m Q ref k τ := by
  have kp := run4_mono hrun
  exact ⟨run4_reachable h.hx hrun, kp.committed m h.hm, h.hQ.run kp.tree kp.acks, h.hp.mono kp.tree, h.hh,
    h.hkm.mono kp.tree⟩

theorem Sit.keeps (hV : V.Nodup) {m : Nat × Nat} {Q : List Nat} {ref : List Entry} {k τ : Nat}
    (h : Sit V x m Q ref k τ) {v : Nat} (hv : v ∈ Q) : KeepsS x v ref k :=
  cover_quorum (inv3_reachable hV (reach4 hV h.hx).1).1 h.hm h.hQ h.hp h.hh h.hkm hv

theorem Sit.covered (hV : V.Nodup) {m : Nat × Nat} {Q : List Nat} {ref : List Entry} {k τ : Nat}
    (h : Sit V x m Q ref k τ) {v : Nat} (hv : v ∈ Q) : DurablyCovered V x v ref k := by
  refine ⟨h.keeps hV hv, snapBacked hV (reach4 hV h.hx).1 v, fun d n y' hc hs => ?_⟩
  obtain ⟨co, r, sor, hn⟩ := hc.crashOf
  have hrun : Run4 V x y' := .next x y' .refl co.trans hs
  have h' := h.run hrun
  have k' := h'.keeps hV hv
  have hni : y'.node v = n := co.node_i
  have cn : Covers n.log n.snapsDisk ref k := by
    have := k'.disk.of_durable
    rw [hni] at this
    exact this
  have cd := cover_restart hn cn
  refine ⟨cd, fun hst => ?_, fun hst => cover_stale hst cd, ?_, cn, k', snapBacked hV (reach4 hV h'.hx).1 v⟩
  · rw [← logOf_not_stale d hst]; exact cd
  · have := k'.flushed
    rw [hni] at this
    exact this

/-- **a member of the acknowledging majority durably covers, in every later state** -/
theorem covered_later (hV : V.Nodup) {m : Nat × Nat} {Q : List Nat} {ref : List Entry} {k τ : Nat}
    (h : Sit V x m Q ref k τ) (hrun : Run4 V x y) {v : Nat} (hv : v ∈ Q) : DurablyCovered V y v ref k :=
  (h.run hrun).covered hV hv

/-- **leader completeness across states, on the virtual log**: a leader of a later state whose term is at least the term
of the ledger entry holds every root path through an ancestor of the entry — in its virtual log; in its real log above
`log.prev`; at or below, its snapshot covers the index -/
theorem leader_holds_later (hV : V.Nodup) {m : Nat × Nat} {Q : List Nat} {ref : List Entry} {k τ : Nat}
    (h : Sit V x m Q ref k τ) {l : Nat} (hl : (x.node l).role = .leader) (hle : m.2 ≤ (x.node l).term) :
    ∀ k', 1 ≤ k' → k' ≤ k → (x.vlog l)[k' - 1]? = ref[k' - 1]? ∧ (ref[k' - 1]?).isSome = true ∧
      ((x.node l).log.prev < k' → (x.node l).log.get? k' = ref[k' - 1]?) ∧
      (k' ≤ (x.node l).log.prev → k' ≤ (x.node l).snapIndex) := by
  have hI := (inv3_reachable hV (reach4 hV h.hx).1).1
  have hc : CInv V (eview (view3 x).cs) := hI.sinv.cinv
  have hmv : Holds (x.vlog l) m.1 m.2 := leader_holds_committed hV hc (i := l) hl h.hm hle
  have hkv : Holds (x.vlog l) k τ := log_holds_anc hc l h.hkm hmv
  have hpv : Path x.s2.cs.T (x.vlog l) := log_path hc l
  intro k' h1 h2
  have ag := path_agree (uniq hc) hpv h.hp hkv h.hh k' h1 h2
  refine ⟨ag, ?_, fun hlt => ?_, fun hle' => Nat.le_trans hle' (hI.prev l).le⟩
  · have : k' - 1 < ref.length := by have := h.hh.2.1; omega
    rw [List.getElem?_eq_getElem this]; rfl
  · rw [C09Sys3.get_virtual3 x l k' hlt, C09Sys3.vget3 x l k' h1, ag]

/-- the situation exists for every index within a node's commit index -/
theorem sit_of_commit (hV : V.Nodup) (hx : Reachable4 V x) {j k : Nat} (hk : 1 ≤ k) (hkc : k ≤ (x.node j).commitIndex) :
    ∃ m Q, m.2 ≤ (x.node j).term ∧ Sit V x m Q (x.vlog j) k (termAt (x.vlog j) k) := by
  have hI := (inv3_reachable hV (reach4 hV hx).1).1
  obtain ⟨hp, hh, m, hm, hmt, hanc, Q, hQ⟩ := committed_quorum hI hk hkc
  exact ⟨m, Q, hmt, hx, hm, hQ, hp, hh, hanc⟩

/-- … and for every ledger entry, with a root path that ends with it -/
theorem sit_of_ledger (hV : V.Nodup) (hx : Reachable4 V x) {m : Nat × Nat} (hm : m ∈ x.s2.cs.committed) :
    ∃ Q ref, ref.length = m.1 ∧ Sit V x m Q ref m.1 m.2 := by
  have hI := (inv3_reachable hV (reach4 hV hx).1).1
  have hc : CInv V (eview (view3 x).cs) := hI.sinv.cinv
  obtain ⟨⟨c, hcT, hck, _⟩, _⟩ := hc.cmt.quorum m hm
  obtain ⟨es, hp, hh⟩ := hc.tree.ok.pathc c hcT
  have e1 : c.e.index = m.1 := by rw [← hck]; rfl
  have e2 : c.e.term = m.2 := by rw [← hck]; rfl
  rw [e1, e2] at hh
  obtain ⟨Q, hQ⟩ := ackQuorum_exists hc hm
  have hp' : Path x.s2.cs.T (es.take m.1) := hp.prefix (List.take_prefix _ _)
  have hh' : Holds (es.take m.1) m.1 m.2 := holds_take_iff.mpr ⟨Nat.le_refl _, hh⟩
  refine ⟨Q, es.take m.1, ?_, hx, hm, hQ, hp', hh', anc_of_path hp' hh' hh' (Nat.le_refl _)⟩
  rw [List.length_take]; have := hh.2.1; omega

end later

/-! ### the install handler (node level) -/

/-- the reply of a completed install step carries the result code of the handler -/
theorem install_reply (s : Node) (q : InstallReq) (ra : List Nat) (ord : List (List Nat)) :
    (s.step (.install q) ra ord).rpcReply.map (·.result) = some ((s.begin ra ord).onInstallSnap q).result := by
  have h := install_step_iobs s q ra ord
  have : (s.step (.install q) ra ord).rpcReply =
      some (((s.begin ra ord).onInstallSnap q).mkReply false false) := congrArg (fun p => p.2.2.2.2.1.2.2.1) h
  rw [this]; rfl

/-- a `success` reply is not a refusal of a stale request -/
theorem install_reply_success (s : Node) (q : InstallReq) (ra : List Nat) (ord : List (List Nat))
    (h : (s.step (.install q) ra ord).rpcReply.map (·.result) = some rSuccess) : ¬ q.term < s.term := by
  intro hst
  rw [install_reply] at h
  have hst' : q.term < (s.begin ra ord).term := hst
  rw [onInstallSnap_eq, if_pos hst'] at h
  have h' : some rStaleTerm = some rSuccess := h
  exact absurd h' (by decide)

/-- **the storage points of an installing request, in order**: (`value.set`, if the term is adopted), `snap.publish`,
`snap.retain`, `clearLog`; before `snap.publish` the log and the snapshot files on disk are the old ones; from
`snap.publish` on the received file is the newest file on disk; the log is reset only at `clearLog` -/
theorem install_trace_order (s : Node) (q : InstallReq) (ra : List Nat) (ord : List (List Nat)) (hi : Installs s q)
    (hr : 1 ≤ s.retain) (hh : ∀ g, s.snapsDisk.head? = some g → g.index ≤ q.lastIndex) :
    ∃ pre d1 d2 d3, (s.step (.install q) ra ord).trace =
        pre ++ [("snap.publish", d1), ("snap.retain", d2), ("clearLog", d3)] ∧
      (∀ p ∈ pre, p.2.log = s.durable.log ∧ p.2.snaps = s.snapsDisk) ∧
      (d1.log = s.durable.log ∧ d1.snaps.head? = some (C09.fileOf q)) ∧
      (d2.log = s.durable.log ∧ d2.snaps.head? = some (C09.fileOf q)) ∧
      (d3.log = NLog.reset q.lastIndex ∧ d3.snaps.head? = some (C09.fileOf q)) ∧
      ((s.step (.install q) ra ord).durable.log = NLog.reset q.lastIndex ∧
        (s.step (.install q) ra ord).durable.snaps.head? = some (C09.fileOf q)) := by
  obtain ⟨hterm, hahead, hk⟩ := hi
  have hb1 : ¬ q.term < (s.begin ra ord).term := hterm
  have hb2 : (s.begin ra ord).commitIndex < q.lastIndex := hahead
  have hb3 : C09.keepsLog (s.begin ra ord) q = false := hk
  have htr : (s.step (.install q) ra ord).trace = ((s.begin ra ord).onInstallSnap q).trace :=
    (install_step_eqs s q ra ord).2.2.2.1.1
  have hscript := C10.install_discard_script (s.begin ra ord) q hb1 hb2 hb3
  have hbt : (s.begin ra ord).trace = [] := rfl
  rw [hbt, List.nil_append] at hscript
  have sd := sameData_installPre (s.begin ra ord) q
  have hpl : (installPre (s.begin ra ord) q).durable.log = s.durable.log := by
    show (installPre (s.begin ra ord) q).log.durable = s.log.durable
    rw [sd.log]; rfl
  have hd1 := inst_head s q hr hh (l := insertSnap (C09.fileOf q) s.snapsDisk) (Or.inl rfl)
  have hd2 := inst_head s q hr hh (l := (insertSnap (C09.fileOf q) s.snapsDisk).take s.retain) (Or.inr rfl)
  have hdur : (s.step (.install q) ra ord).durable = ((s.begin ra ord).onInstallSnap q).durable :=
    (iobs_durable (install_step_iobs s q ra ord)).trans rfl
  refine ⟨C10.preTrace (s.begin ra ord) q,
    { (installPre (s.begin ra ord) q).durable with snaps := insertSnap (C09.fileOf q) s.snapsDisk },
    { (installPre (s.begin ra ord) q).durable with snaps := (insertSnap (C09.fileOf q) s.snapsDisk).take s.retain },
    { (installPre (s.begin ra ord) q).durable with
        snaps := (insertSnap (C09.fileOf q) s.snapsDisk).take s.retain, log := NLog.reset q.lastIndex },
    htr.trans hscript, fun p hp => ?_, ⟨hpl, hd1⟩, ⟨hpl, hd2⟩, ⟨rfl, hd2⟩, ?_⟩
  · unfold C10.preTrace at hp
    split at hp
    · rw [List.mem_singleton] at hp
      subst hp
      exact ⟨rfl, rfl⟩
    · cases hp
  · rw [hdur]
    obtain ⟨e1, _, _, _, _, _, _, _, e9, _⟩ := C09.install_snapshot_discard (s.begin ra ord) q hb1 hb2 hb3
    constructor
    · show ((s.begin ra ord).onInstallSnap q).log.durable = _
      rw [e1, reset_durable]
    · show ((s.begin ra ord).onInstallSnap q).snapsDisk.head? = _
      rw [e9]; exact hd2

/-- **every crash point of the install handler**: the disk holds the old log and the old snapshot files (the process died
before `snap.publish`), or the received file is the newest file on disk -/
theorem install_crash_point (s : Node) (q : InstallReq) (ra : List Nat) (ord : List (List Nat)) (k : Nat)
    (hr : 1 ≤ s.retain) (hh : ∀ g, s.snapsDisk.head? = some g → g.index ≤ q.lastIndex) :
    ((C05.crashDisk s (.install q) ra ord k).log = s.durable.log ∧
      (C05.crashDisk s (.install q) ra ord k).snaps = s.snapsDisk) ∨
    (Installs s q ∧ (C05.crashDisk s (.install q) ra ord k).snaps.head? = some (C09.fileOf q)) := by
  rcases (install_crashDisk s q ra ord k).data with h | ⟨hi, _, hs, _⟩
  · exact Or.inl h
  · exact Or.inr ⟨hi, inst_head s q hr hh hs⟩

end DurableSnap
end Raft
