/-
Lemmas for "the per-node invariants hold in every reachable state of the cluster system" (Props/C19Sys.lean).

Part 1 — node level: how `configs` moves when every configuration entry around has index 1 (`CfgLe1`), from the
two-state description of C08Step (`CfgRel.Chain`); a step that is not an append request appends no configuration
entry (from `C08Step.at_most_one_uncommitted_log_partial`); the configurations of a restarted node.
Part 1b — a guarded variant of the composition lemmas of Lemmas/Inv.lean / Lemmas/StepInv.lean (`SClosed`, `SStep`:
the real `appendEntry` and a guarded `removeGTE` as primitives) and its instance `SegInv`: the segment list is well
formed in memory and AT EVERY CRASH POINT of a step that does not fail (`crashDisk_segsOK`).
Part 2 — the cluster: the system `Commit` (Sys/Commit.lean) with two more environment assumptions (`EnabledG`),
closed nodes frozen (`TransG`) and one more side condition on the states of a run (`SideG`), the invariant `GInv`
(every node satisfies `NoPanic.Good true`, …) and its preservation by every transition.
-/
import RaftVerif.Props.C03Sys
import RaftVerif.Props.C08Step
import RaftVerif.Props.C12Track
import RaftVerif.Props.C15Tasks

namespace Raft
namespace SysInv
open Node LogRel CommitRel Commit C02Sys NoPanic
open Replication (Uniq ReadFrom newCreated chainOf)
open Election (FixedV setNode setNode_same setNode_other)

/-! ## Part 1: node level -/

/-- both configurations a node holds have an index of at most 1 (the bootstrap entry, or none) -/
def CfgLe1 (cs : Configs) : Prop := cs.committed.index ≤ 1 ∧ cs.latest.index ≤ 1

/-- follower-side moves (adoption of a configuration entry with index ≤ 1, revert, commit) keep `CfgLe1` -/
theorem chain_fresh_le1 {s : Node} {op : Op} (h0 : CfgLe1 s.configs)
    (hadopt : ∀ q e c, op = .append q → e ∈ q.entries → e.config? = some c → c.index ≤ 1)
    (hni : ∀ q, op ≠ .install q) (hnb : ∀ t c, op ≠ .changeConfig t c)
    {ph : CfgRel.Phase} {cs : Configs} (h : CfgRel.Chain s op ph cs) : ph = .fresh → CfgLe1 cs := by
  induction h with
  | start => intro _; exact h0
  | @step ph0 ph1 cs0 cs1 hc mv ih =>
    intro hp
    cases mv with
    | change => exact absurd hp (CfgRel.Phase.afterChangeP_ne _ _)
    | commit _ _ i hnc =>
      have := ih (CfgRel.Phase.afterCommit_fresh hp)
      exact ⟨this.2, this.2⟩
    | adopt _ q e c hop he hcfg => exact ⟨(ih rfl).2, hadopt q e c hop he hcfg⟩
    | revert _ q e hop => exact ⟨(ih rfl).1, (ih rfl).1⟩
    | install _ q hop => exact absurd hop (hni q)
    | bootstrap t c _ hop => exact absurd hop (hnb t c)

/-- leader-side moves: the index of the latest configuration does not decrease, and `CfgLe1` is kept unless it
increased -/
theorem chain_leader_le1 {s : Node} {op : Op} (h0 : CfgLe1 s.configs) (happ : ∀ q, op ≠ .append q)
    (hni : ∀ q, op ≠ .install q) (hnb : ∀ t c, op ≠ .changeConfig t c)
    {ph : CfgRel.Phase} {cs : Configs} (h : CfgRel.Chain s op ph cs) :
    s.configs.latest.index ≤ cs.latest.index ∧ (CfgLe1 cs ∨ s.configs.latest.index < cs.latest.index) := by
  induction h with
  | start => exact ⟨Nat.le_refl _, Or.inl h0⟩
  | @step ph0 ph1 cs0 cs1 hc mv ih =>
    cases mv with
    | change _ x b c _ _ _ _ _ _ _ _ hlt =>
      have := ih.1
      exact ⟨by show _ ≤ c.index; omega, Or.inr (by show _ < c.index; omega)⟩
    | commit _ _ i hnc =>
      refine ⟨ih.1, ?_⟩
      rcases ih.2 with l | l
      · exact Or.inl ⟨l.2, l.2⟩
      · exact Or.inr l
    | adopt _ q e c hop => exact absurd hop (happ q)
    | revert _ q e hop => exact absurd hop (happ q)
    | install _ q hop => exact absurd hop (hni q)
    | bootstrap t c _ hop => exact absurd hop (hnb t c)

/-- the leader's cached own entry is current, from `Good` -/
theorem selfCache_of_good {T : Bool} {s : Node} (hG : Good T s) (ho : s.closed = "") : CfgRel.SelfCache s := by
  intro hr
  have hc := (hG.leader ho hr).2
  rw [((LC.cache_iff s).mp hc).2.1]
  exact CfgRel.get_voter_eq_isVoter _ _

theorem anchC_of_good {T : Bool} {s : Node} (hG : Good T s) : CfgRel.AnchC s.configs.latest := by
  by_cases hn : s.configs.latest.nodes = []
  · exact Or.inl hn
  · exact Or.inr (C08Step.hasAnchor_of_anchored (hG.glob.cfgL.2 hn).1)

/-- **a step that is not an append request, handled without failure by a node whose configuration entries all
have index 1, leaves `CfgLe1`** — provided the latest configuration is the same afterwards (`NStep.cfg`: no
change is started under a stable configuration). -/
theorem step_cfgLe1 {T : Bool} (s : Node) (op : Op) (ra : List Nat) (ord : List (List Nat)) (hG : Good T s)
    (ho : s.closed = "") (hok : CfgRel.OpOk op) (happ : ∀ q, op ≠ .append q) (hni : ∀ q, op ≠ .install q)
    (hnb : ∀ t c, op ≠ .changeConfig t c) (h0 : CfgLe1 s.configs)
    (hcfg : (s.step op ra ord).configs.latest = s.configs.latest) : CfgLe1 (s.step op ra ord).configs := by
  obtain ⟨ph, hc⟩ := C08Step.config_step_good s op ra ord hG ho hok
  rcases (chain_leader_le1 h0 happ hni hnb hc).2 with l | l
  · exact l
  · rw [hcfg] at l; omega

/-- **… and appends no configuration entry**: every configuration entry of the log after the step has index ≤ 1 -/
theorem step_cfg_entries {T : Bool} (s : Node) (op : Op) (ra : List Nat) (ord : List (List Nat)) (hG : Good T s)
    (ho : s.closed = "") (hok : CfgRel.OpOk op) (happ : ∀ q, op ≠ .append q)
    (hp : (s.step op ra ord).panicked = none)
    (hc1 : ∀ e ∈ s.log.entries, e.typ = etConfig → e.index = 1) (hl1 : s.configs.latest.index = 1)
    (hcfg : (s.step op ra ord).configs.latest = s.configs.latest) :
    ∀ e ∈ (s.step op ra ord).log.entries, e.typ = etConfig → e.index ≤ 1 := by
  have hl : CfgRel.LogInv s :=
    ⟨fun e he ht => Or.inr (by rw [hc1 e he ht, hl1]), hG.ordered.committed_le_latest⟩
  have hpost := C08Step.at_most_one_uncommitted_log_partial s op ra ord (selfCache_of_good hG ho)
    hG.ordered.latest_le_last (anchC_of_good hG) hok hl happ hp
  intro e he ht
  rcases hpost.1 e he ht with h | h
  · have := hpost.2
    rw [hcfg, hl1] at this
    omega
  · rw [h, hcfg, hl1]; exact Nat.le_refl _

/-- **an append request whose configuration entries all have index ≤ 1 keeps `CfgLe1`** -/
theorem append_cfgLe1 (s : Node) (q : AppendReq) (ra : List Nat) (ord : List (List Nat))
    (hli : s.configs.latest.index ≤ s.lastLogIndex) (hanch : CfgRel.AnchC s.configs.latest)
    (h0 : CfgLe1 s.configs) (hq : ∀ e ∈ q.entries, ∀ c, e.config? = some c → c.index ≤ 1) :
    CfgLe1 (s.step (.append q) ra ord).configs := by
  have m0 := CfgRel.main_begin s (.append q) ra ord hli hanch
  show CfgLe1 (settle 6 ((s.begin ra ord).handle (.append q)) (s.begin ra ord).role).configs
  have hh : (s.begin ra ord).handle (.append q) = ((s.begin ra ord).onAppendEntries q).rpcDone false true := rfl
  rcases CfgRel.onAppendEntries_fi (s.begin ra ord) q rfl m0.chain m0.ci with h | h
  · rw [hh, h]
    have hk := CfgRel.kf_rpcDone ((s.begin ra ord).ret rStaleTerm) false true
    have e1 : (((s.begin ra ord).ret rStaleTerm).rpcDone false true).configs = s.configs := congrArg Prod.fst hk
    have e3 : (((s.begin ra ord).ret rStaleTerm).rpcDone false true).role = (s.begin ra ord).role :=
      congrArg (fun p => p.2.2) hk
    have : settle 6 (((s.begin ra ord).ret rStaleTerm).rpcDone false true) (s.begin ra ord).role =
        ((s.begin ra ord).ret rStaleTerm).rpcDone false true := by
      unfold settle; rw [if_pos e3]
    rw [this, e1]; exact h0
  · have h' : CfgRel.FI s (.append q) ((s.begin ra ord).handle (.append q)) := by
      rw [hh]; exact h.congr (CfgRel.kf_rpcDone _ _ _)
    rw [CfgRel.settle_follower 6 _ _ h'.role]
    exact chain_fresh_le1 h0 (fun q' e c hop he hc => by
        injection hop with hop; subst hop; exact hq e he c hc)
      (fun q' h => by cases h) (fun t c h => by cases h) h'.chain rfl

/-- **the configurations of a restarted node**: when the disk holds no snapshot and every configuration entry of
its log has index ≤ 1 (and decodes), both have an index ≤ 1 -/
theorem restart_cfgLe1 (d : Durable) (r : Nat) (sor : Bool) (n : Node) (h : restart d r sor = some n)
    (hs : d.snaps = []) (hp : d.log.prev = 0)
    (hc : ∀ e ∈ d.log.entries, e.typ = etConfig → e.index ≤ 1 ∧ e.cfg.isSome = true) : CfgLe1 n.configs := by
  obtain ⟨_, _, _, _, _, hcfg, _⟩ := C10.restart_fsm d r sor n h
  have hsnap : C10.snapOf d = {} := by unfold C10.snapOf; rw [hs]; rfl
  have hwf : C10.DurWF d := by unfold C10.DurWF; rw [hp]; exact Nat.zero_le _
  have hsub : ∀ e ∈ C10.window (C10.logOf d) (C10.snapOf d).index (C10.logOf d).last, e ∈ d.log.entries :=
    fun e he => C15NoPanic.logOf_entries d e (C15NoPanic.window_sub _ _ _ e he)
  have hok : C10.NoDecodeErr (C10.window (C10.logOf d) (C10.snapOf d).index (C10.logOf d).last) := by
    intro e he ht
    have := (hc e (hsub e he) ht).2
    unfold Entry.config?
    rw [if_pos ht]
    cases hx : e.cfg with
    | none => rw [hx] at this; cases this
    | some c => rfl
  obtain ⟨_, hl, hcm⟩ := C10.restart_configs d r sor hwf hok
  have habove : ∀ c ∈ C10.configsAbove d, c.index ≤ 1 := by
    intro c hcm
    unfold C10.configsAbove at hcm
    obtain ⟨e, he, hec⟩ := List.mem_filterMap.mp hcm
    have ht : e.typ = etConfig := by
      unfold Entry.config? at hec
      split at hec
      · assumption
      · cases hec
    rw [Order.config?_index hec]
    exact (hc e (hsub e he) ht).1
  have hget : ∀ k : Nat, (((C10.configsAbove d)[k]?).getD (C10.snapOf d).config).index ≤ 1 := by
    intro k
    cases hk : (C10.configsAbove d)[k]? with
    | none => rw [hsnap]; exact Nat.zero_le _
    | some c => exact habove c (List.mem_of_getElem? hk)
  rw [hcfg]
  exact ⟨by rw [hcm]; exact hget 1, by rw [hl]; exact hget 0⟩

/-! ## Part 1b: a guarded closure for facts about the segment list

`Node.Closed` / `Node.StepClosed` (Lemmas/Inv.lean, Lemmas/StepInv.lean) ask for closure under
`log := log.append e roll` with an ARBITRARY roll-over bit and under `removeGTE i` for an arbitrary `i`; the
well-formedness of the segment list (`C09.SegsOK`: boundaries strictly increasing) survives only the roll-over
`storage.appendEntry` really decides on and a truncation at an index the log holds. `SClosed` / `SStep` are the same
composition lemmas with these two primitives stated for the real call sites, for the operations of the `_partial`
model (`CommitRel.OpOK2`: no install / snapshot / shutdown / configuration change). -/

structure SClosed (Inv : Node → Prop) : Prop where
  panic : ∀ s site, Inv s → Inv (s.panic site)
  reply : ∀ s t r, Inv s → Inv (s.reply t r)
  point : ∀ s n, Inv s → Inv (s.point n)
  ldr : ∀ (s : Node) l, Inv s → Inv (s.withLdr l)
  /-- the real `storage.appendEntry`, with its own assertion and roll-over decision -/
  appendEntry : ∀ (s : Node) e, Inv s → Inv (s.appendEntry e)
  commitN : ∀ (s : Node) n, Inv s → Inv { s with log := s.log.commitN n }
  fsm : ∀ (s : Node) f, Inv s → Inv (s.withFsm f)
  changeConfigR : ∀ (s : Node) c, Inv s → Inv (s.changeConfigR c)
  /-- the commit index only ever moves forward: every call site has checked `i > commitIndex` -/
  setCommitIndexR : ∀ (s : Node) i, Inv s → i > s.commitIndex → Inv (s.setCommitIndexR i).1
  popOrder : ∀ (s : Node), Inv s → Inv s.popOrder

namespace SClosed

variable {Inv : Node → Prop} (h : SClosed Inv)
include h

theorem assert_inv (s : Node) (b : Bool) (site : String) (hs : Inv s) : Inv (s.assert b site) := by
  unfold Node.assert; split <;> simp_all [h.panic]

theorem appendEntry_inv (s : Node) (e : Entry) (hs : Inv s) : Inv (s.appendEntry e) := h.appendEntry _ _ hs

theorem commitLog_inv (s : Node) (n : Nat) (hs : Inv s) : Inv (s.commitLog n) := by
  unfold Node.commitLog; exact h.point _ _ (h.commitN _ _ hs)

theorem setRepl_inv (s : Node) (r : Repl) (hs : Inv s) : Inv (s.setRepl r) := by
  unfold Node.setRepl; exact h.ldr _ _ hs

theorem addReplication_inv (s : Node) (n : CNode) (hs : Inv s) : Inv (s.addReplication n) := by
  unfold Node.addReplication
  apply h.setRepl_inv
  split
  · exact h.assert_inv _ _ _ hs
  · exact h.panic _ _ (h.assert_inv _ _ _ hs)

theorem notifyFlr_inv (s : Node) (hs : Inv s) : Inv s.notifyFlr := by
  unfold Node.notifyFlr; split
  · exact hs
  · split
    · exact hs
    · exact h.panic _ _ hs

theorem beginFinishedRounds_inv (s : Node) (hs : Inv s) : Inv s.beginFinishedRounds := by
  unfold Node.beginFinishedRounds; exact h.ldr _ _ hs

theorem fsmApplyLogTo_inv (s : Node) (n : Nat) (hs : Inv s) : Inv (s.fsmApplyLogTo n) := by
  unfold Node.fsmApplyLogTo
  split
  · exact hs
  · split
    · exact h.panic _ _ hs
    · extract_lets es ups lastTerm cfg s1
      have h1 : Inv s1 := by unfold s1; split; exact h.panic _ _ hs; exact hs
      split
      · exact h.panic _ _ hs
      · exact h.fsm _ _ h1

theorem fsmApplyItems_inv (s : Node) (qs : List QItem) (hs : Inv s) : Inv (s.fsmApplyItems qs) := by
  induction qs generalizing s with
  | nil => exact hs
  | cons q qs ih =>
    unfold Node.fsmApplyItems
    dsimp only
    apply ih
    apply h.reply
    have h1 : Inv (s.assert (q.index == s.fsm.index + 1) "fsm.assertNext") := h.assert_inv s _ _ hs
    repeat' split
    all_goals first
      | exact h.fsm _ _ (h.fsm _ _ (h.fsm _ _ h1))
      | exact h.fsm _ _ (h.fsm _ _ h1)
      | exact h.fsm _ _ h1
      | exact h1

theorem fsmApply_inv (s : Node) (qs : List QItem) (hs : Inv s) : Inv (s.fsmApply qs) := by
  unfold Node.fsmApply
  split
  · exact h.panic _ _ hs
  · split
    · exact h.panic _ _ hs
    · dsimp only
      exact h.assert_inv _ _ _ (h.fsmApplyItems_inv _ _ (h.fsmApplyLogTo_inv _ _ hs))

theorem applyCommittedL_inv (s : Node) (hs : Inv s) : Inv s.applyCommittedL := by
  unfold Node.applyCommittedL; exact h.fsmApply_inv _ _ (h.ldr _ _ hs)

omit h in
theorem foldl_inv {β : Type} (f : Node → β → Node) (hf : ∀ s x, Inv s → Inv (f s x))
    (xs : List β) (s : Node) (hs : Inv s) : Inv (xs.foldl f s) := by
  induction xs generalizing s with
  | nil => exact hs
  | cons x xs ih => exact ih _ (hf _ _ hs)

/-- The leader block preserves every closed invariant, by induction on the recursion budget. -/
theorem block : ∀ fuel : Nat,
    (∀ s b, Inv s → Inv (storeEntry fuel s b)) ∧
    (∀ s b, Inv s → Inv (storeItems fuel s b)) ∧
    (∀ s c, Inv s → Inv (changeConfigL fuel s c)) ∧
    (∀ s t c, Inv s → Inv (doChangeConfig fuel s t c)) ∧
    (∀ s t c, Inv s → Inv (checkConfigActions fuel s t c)) ∧
    (∀ s t c id, Inv s → Inv (checkConfigAction fuel s t c id)) ∧
    (∀ s i, Inv s → i > s.commitIndex → Inv (setCommitIndexL fuel s i)) ∧
    (∀ s, Inv s → Inv (onMajorityCommit fuel s)) := by
  intro fuel
  induction fuel with
  | zero =>
    refine ⟨?_, ?_, ?_, ?_, ?_, ?_, ?_, ?_⟩ <;> intros <;> (try unfold storeItems) <;>
      (try unfold storeEntry) <;> (try unfold changeConfigL) <;> (try unfold doChangeConfig) <;>
      (try unfold checkConfigActions) <;> (try unfold checkConfigAction) <;>
      (try unfold setCommitIndexL) <;> (try unfold onMajorityCommit) <;>
      (try split) <;> first | assumption | (apply h.panic; assumption)
  | succ n ih =>
    obtain ⟨ihSE, ihSI, ihCL, ihDC, ihCAs, ihCA, ihSC, ihMC⟩ := ih
    refine ⟨?_, ?_, ?_, ?_, ?_, ?_, ?_, ?_⟩
    · -- storeEntry
      intro s b hs
      unfold storeEntry; dsimp only
      have h1 : Inv (storeItems n s b) := ihSI _ _ hs
      have h2 := h.applyCommittedL_inv _ h1
      repeat' split
      all_goals first
        | exact ihMC _ (h.notifyFlr_inv _ (h.beginFinishedRounds_inv _ h2))
        | exact ihMC _ (h.notifyFlr_inv _ (h.beginFinishedRounds_inv _ h1))
        | exact h.notifyFlr_inv _ (h.beginFinishedRounds_inv _ h2)
        | exact h.notifyFlr_inv _ (h.beginFinishedRounds_inv _ h1)
        | exact h2
        | exact h1
    · -- storeItems
      intro s b hs
      cases b with
      | nil => unfold storeItems; exact hs
      | cons q qs =>
        unfold storeItems; dsimp only
        apply ihSI
        split
        · exact h.reply _ _ _ hs
        · split
          · split
            · exact h.reply _ _ _ hs
            · exact h.reply _ _ _ hs
          · have h1 := h.ldr s { s.ldr with queue := s.ldr.queue ++ [{ q with index := s.lastLogIndex + 1, term := s.term, cfg := q.cfg.map Config.payload }] } hs
            split
            · split
              · split
                · exact ihCL _ _ (h.appendEntry_inv _ _ h1)
                · exact h.panic _ _ (h.appendEntry_inv _ _ h1)
              · exact h.appendEntry_inv _ _ h1
            · exact h1
    · -- changeConfigL
      intro s c hs
      unfold changeConfigL; dsimp only
      apply ihCAs
      apply foldl_inv
      · intro s x hs
        split
        · exact hs
        · split
          · exact h.addReplication_inv _ _ hs
          · exact h.setRepl_inv _ _ hs
      · exact h.ldr _ _ (h.changeConfigR _ _ (h.ldr _ _ hs))
    · -- doChangeConfig
      intro s t c hs
      unfold doChangeConfig; exact ihSE _ _ hs
    · -- checkConfigActions
      intro s t c hs
      unfold checkConfigActions; dsimp only
      apply foldl_inv
      · intro s x hs
        split
        · exact ihCA _ _ _ _ hs
        · exact hs
      · apply h.popOrder
        split
        · split
          · exact ihDC _ _ _ hs
          · split
            · exact ihDC _ _ _ hs
            · exact h.panic _ _ hs
        · exact hs
    · -- checkConfigAction
      intro s t c id hs
      unfold checkConfigAction; dsimp only
      have h1 := fun r => h.setRepl_inv s r hs
      repeat' split
      all_goals first | exact hs | exact h1 _ | exact ihDC _ _ _ (h1 _)
    · -- setCommitIndexL
      intro s i hs hi
      unfold setCommitIndexL
      extract_lets s1 ready r s2 s3
      have h2 : Inv s2 := h.setCommitIndexR _ i (h.commitLog_inv _ i hs) hi
      have h3 : Inv s3 := by
        unfold s3; split
        · exact ihCAs _ _ _ h2
        · exact h2
      split
      · split
        · exact h.ldr _ _ (foldl_inv _ (fun s t hs => h.reply _ _ _ hs) _ _ h3)
        · exact ihCAs _ _ _ h3
      · exact h3
    · -- onMajorityCommit
      intro s hs
      unfold onMajorityCommit; dsimp only
      have h1 := h.panic s "nil.majorityMatchIndex" hs
      have hc : ∀ site, (s.panic site).commitIndex = s.commitIndex := by
        intro site; unfold Node.panic; split <;> rfl
      split
      · split
        · rename_i hgt
          exact h.notifyFlr_inv _ (h.applyCommittedL_inv _ (ihSC _ _ hs hgt.1))
        · exact hs
      · split
        · rename_i hgt
          exact h.notifyFlr_inv _ (h.applyCommittedL_inv _ (ihSC _ _ h1 (by rw [hc] at hgt; rw [hc]; exact hgt.1)))
        · exact h1

end SClosed

structure SStep (Inv : Node → Prop) : Prop extends SClosed Inv where
  rpcReply : ∀ (s : Node) r, Inv s → Inv (s.withRpcReply r)
  ret : ∀ (s : Node) r, Inv s → Inv (s.ret r)
  setRole : ∀ (s : Node) r, Inv s → Inv (s.setRole r)
  setLeader : ∀ (s : Node) l, Inv s → Inv (s.setLeader l)
  setTerm : ∀ (s : Node) t, Inv s → Inv (s.setTerm t)
  /-- `setVotedFor` entering a higher term (vote requests, the self vote of `startElection`) -/
  voteNewTerm : ∀ (s : Node) t c, Inv s → t > s.term → Inv (s.setVotedFor t c)
  /-- `setVotedFor` granting the vote in the current term while no vote was cast yet -/
  voteGrant : ∀ (s : Node) c, Inv s → s.votedFor = 0 → Inv (s.setVotedFor s.term c)
  votesNeeded : ∀ (s : Node) v, Inv s → Inv (s.withVotesNeeded v)
  candTransfer : ∀ (s : Node) v, Inv s → Inv (s.withCandTransfer v)
  /-- `storage.removeGTE`: every call site has found the entry `i` in the log -/
  removeGTE : ∀ (s : Node) i pt, Inv s → s.log.prev < i → i ≤ s.log.last →
    Inv { s with log := s.log.removeGTE i, lastLogIndex := i - 1, lastLogTerm := pt }
  removeLTE : ∀ (s : Node) i, Inv s → Inv { s with log := s.log.removeLTE i }
  revertConfig : ∀ (s : Node), Inv s → Inv s.revertConfig
  snapPending : ∀ (s : Node) v, Inv s → Inv (s.withSnapPending v)

namespace SStep

variable {Inv : Node → Prop} (h : SStep Inv)
include h

theorem storeEntry_inv (f : Nat) (s : Node) (b) (hs : Inv s) : Inv (storeEntry f s b) := (h.toSClosed.block f).1 s b hs
theorem doChangeConfig_inv (f : Nat) (s : Node) (t c) (hs : Inv s) : Inv (doChangeConfig f s t c) :=
  (h.toSClosed.block f).2.2.2.1 s t c hs
theorem checkConfigActions_inv (f : Nat) (s : Node) (t c) (hs : Inv s) : Inv (checkConfigActions f s t c) :=
  (h.toSClosed.block f).2.2.2.2.1 s t c hs
theorem checkConfigAction_inv (f : Nat) (s : Node) (t c id) (hs : Inv s) : Inv (checkConfigAction f s t c id) :=
  (h.toSClosed.block f).2.2.2.2.2.1 s t c id hs
theorem onMajorityCommit_inv (f : Nat) (s : Node) (hs : Inv s) : Inv (onMajorityCommit f s) :=
  (h.toSClosed.block f).2.2.2.2.2.2.2 s hs

theorem removeGTE_inv (s : Node) (i pt : Nat) (hs : Inv s) (h1 : s.log.prev < i) (h2 : i ≤ s.log.last) :
    Inv (s.removeGTE i pt) := by
  unfold Node.removeGTE; exact h.point _ _ (h.removeGTE _ _ _ hs h1 h2)

theorem compactLog_inv (s : Node) (i : Nat) (hs : Inv s) : Inv (s.compactLog i) := by
  unfold Node.compactLog; exact h.point _ _ (h.removeLTE _ _ hs)

theorem applyCommitted_inv (s : Node) (hs : Inv s) : Inv s.applyCommitted := by
  unfold Node.applyCommitted; exact h.toSClosed.fsmApply_inv _ _ hs

theorem checkQuorum_inv (s : Node) (hs : Inv s) : Inv s.checkQuorum := by
  unfold Node.checkQuorum; dsimp only
  repeat' split
  all_goals first
    | exact hs
    | exact h.panic _ _ hs
    | exact h.setLeader _ _ (h.setRole _ _ hs)
    | exact h.setLeader _ _ (h.setRole _ _ (h.panic _ _ hs))

theorem transferReply_inv (s : Node) (r : String) (hs : Inv s) : Inv (s.transferReply r) := by
  unfold Node.transferReply; exact h.ldr _ _ (h.reply _ _ _ hs)

theorem tryTransfer_inv (s : Node) (hs : Inv s) : Inv s.tryTransfer := by
  unfold Node.tryTransfer; dsimp only
  have hp := h.popOrder s hs
  repeat' split
  all_goals first
    | exact hs
    | exact hp
    | exact h.panic _ _ hs
    | exact h.panic _ _ hp
    | exact h.ldr _ _ hs
    | exact h.ldr _ _ hp
    | exact h.ldr _ _ (h.panic _ _ hs)
    | exact h.ldr _ _ (h.panic _ _ hp)

theorem onTransfer_inv (s : Node) (t g : Nat) (hs : Inv s) : Inv (s.onTransfer t g) := by
  unfold Node.onTransfer; dsimp only
  split
  · exact h.reply _ _ _ hs
  · exact h.tryTransfer_inv _ (h.ldr _ _ hs)

theorem replyTransfer_inv (s : Node) (r : String) (hs : Inv s) : Inv (s.replyTransfer r) := by
  unfold Node.replyTransfer; exact h.checkConfigActions_inv _ _ _ _ (h.transferReply_inv _ _ hs)

theorem onTimeoutNowResult_inv (s : Node) (src : Nat) (e : Bool) (r : Nat) (hs : Inv s) :
    Inv (s.onTimeoutNowResult src e r) := by
  unfold Node.onTimeoutNowResult
  extract_lets l0 t0 s1 s2 l1 t1
  have h0 : Inv s1 := h.ldr _ _ hs
  have h2 : Inv s2 := by
    unfold s2
    split
    · split
      · exact h.toSClosed.setRepl_inv _ _ h0
      · exact h0
    · exact h.panic _ _ h0
  split
  · split
    · exact h.tryTransfer_inv _ h2
    · exact h2
  · split
    · split
      · exact h.replyTransfer_inv _ _ h0
      · exact h.tryTransfer_inv _ h0
    · exact h.ldr _ _ h0

theorem leaderInit_inv (s : Node) (hs : Inv s) : Inv s.leaderInit := by
  unfold Node.leaderInit; dsimp only
  apply h.storeEntry_inv
  apply h.checkConfigActions_inv
  apply SClosed.foldl_inv
  · intro s x hs
    split
    · exact hs
    · exact h.toSClosed.addReplication_inv _ _ hs
  · exact h.ldr _ _ (h.toSClosed.assert_inv _ _ _ hs)

theorem leaderRelease_inv (s : Node) (hs : Inv s) : Inv s.leaderRelease := by
  unfold Node.leaderRelease Node.leaderReleaseRest; dsimp only
  apply h.ldr
  apply SClosed.foldl_inv _ (fun s t hs => h.reply _ _ _ hs)
  apply SClosed.foldl_inv _ (fun s t hs => h.reply _ _ _ hs)
  repeat' split
  all_goals first
    | exact hs
    | exact h.setLeader _ _ hs
    | exact h.transferReply_inv _ _ hs
    | exact h.setLeader _ _ (h.transferReply_inv _ _ hs)

theorem startElection_inv (s : Node) (hs : Inv s) : Inv s.startElection := by
  unfold Node.startElection
  extract_lets s1 s2 s3 s4
  have h4 : Inv s4 := h.votesNeeded _ _ (h.voteNewTerm _ _ _ (h.votesNeeded _ _ (h.toSClosed.assert_inv _ _ _ hs)) (Nat.lt_succ_self _))
  split
  · exact h.setLeader _ _ (h.setRole _ _ h4)
  · exact h4

theorem onVoteResult_inv (s : Node) (e : Bool) (t r : Nat) (hs : Inv s) : Inv (s.onVoteResult e t r) := by
  unfold Node.onVoteResult; dsimp only
  repeat' split
  all_goals first
    | exact hs
    | exact h.setTerm _ _ (h.setRole _ _ hs)
    | exact h.setLeader _ _ (h.setRole _ _ (h.votesNeeded _ _ hs))
    | exact h.votesNeeded _ _ hs

theorem followerTimeout_inv (s : Node) (hs : Inv s) : Inv s.followerTimeout := by
  unfold Node.followerTimeout; dsimp only
  split
  · exact h.setRole _ _ (h.setLeader _ _ hs)
  · exact h.setLeader _ _ hs

theorem releaseRole_inv (s : Node) (r : Role) (hs : Inv s) : Inv (s.releaseRole r) := by
  unfold Node.releaseRole
  split
  · exact hs
  · exact h.candTransfer _ _ hs
  · exact h.leaderRelease_inv _ hs

theorem initRole_inv (s : Node) (hs : Inv s) : Inv s.initRole := by
  unfold Node.initRole
  split
  · exact hs
  · exact h.startElection_inv _ hs
  · exact h.leaderInit_inv _ hs

theorem settle_inv (f : Nat) (s : Node) (c : Role) (hs : Inv s) : Inv (settle f s c) := by
  induction f generalizing s c with
  | zero => exact hs
  | succ n ih =>
    unfold settle
    split
    · exact hs
    · exact ih _ _ (h.initRole_inv _ (h.releaseRole_inv _ _ hs))

omit h in
theorem setVotedFor_same (s : Node) : s.setVotedFor s.term s.votedFor = s := by
  unfold Node.setVotedFor; simp

theorem onVoteRequest_inv (s : Node) (q : VoteReq) (hs : Inv s) : Inv (s.onVoteRequest q) := by
  unfold Node.onVoteRequest
  split
  · exact h.ret _ _ hs
  · split
    · exact h.ret _ _ hs
    · rename_i hlt
      have hge : q.term ≥ s.term := Nat.le_of_not_lt hlt
      extract_lets vf tm s1
      have h1 : Inv s1 := by unfold s1; split; exact h.setRole _ _ hs; exact hs
      have hterm : s1.term = s.term := by unfold s1; split <;> rfl
      have hvote : s1.votedFor = s.votedFor := by unfold s1; split <;> rfl
      by_cases hgt : q.term > s.term
      · have e1 : vf = 0 := by unfold vf; simp [hgt]
        have e2 : tm = q.term := by unfold tm; simp [hgt]
        have hn := fun c => h.voteNewTerm s1 q.term c h1 (by omega)
        simp only [e1, e2]
        repeat' split
        all_goals first | exact h.ret _ _ (hn _) | exact absurd rfl ‹_›
      · have e1 : vf = s1.votedFor := by unfold vf; simp [hgt, hvote]
        have e2 : tm = s1.term := by unfold tm; simp [hgt, hterm]
        simp only [e1, e2]
        split
        · rw [setVotedFor_same]; exact h.ret _ _ h1
        · rename_i hv
          have hv' : s1.votedFor = 0 := by simpa using hv
          split
          · rw [setVotedFor_same]; exact h.ret _ _ h1
          · exact h.ret _ _ (h.voteGrant _ _ h1 hv')

end SStep

/-- One backward step for goals `Inv (…)`: close by assumption, peel one primitive (syntactic match),
or split a conditional. -/
syntax "sinv_step " term : tactic
macro_rules
  | `(tactic| sinv_step $h) => `(tactic| first
      | assumption
      | with_reducible apply SStep.ret $h
      | with_reducible apply SStep.compactLog_inv $h
      | with_reducible apply SStep.applyCommitted_inv $h
      | with_reducible apply SStep.checkQuorum_inv $h
      | with_reducible apply SStep.tryTransfer_inv $h
      | with_reducible apply SStep.onTransfer_inv $h
      | with_reducible apply SStep.replyTransfer_inv $h
      | with_reducible apply SStep.transferReply_inv $h
      | with_reducible apply SStep.onTimeoutNowResult_inv $h
      | with_reducible apply SStep.startElection_inv $h
      | with_reducible apply SStep.onVoteResult_inv $h
      | with_reducible apply SStep.followerTimeout_inv $h
      | with_reducible apply SStep.storeEntry_inv $h
      | with_reducible apply SStep.doChangeConfig_inv $h
      | with_reducible apply SStep.checkConfigActions_inv $h
      | with_reducible apply SStep.checkConfigAction_inv $h
      | with_reducible apply SStep.onMajorityCommit_inv $h
      | with_reducible apply SStep.releaseRole_inv $h
      | with_reducible apply SStep.onVoteRequest_inv $h
      | with_reducible apply SClosed.appendEntry_inv (SStep.toSClosed $h)
      | with_reducible apply SClosed.commitLog_inv (SStep.toSClosed $h)
      | with_reducible apply SClosed.assert_inv (SStep.toSClosed $h)
      | with_reducible apply SClosed.fsmApply_inv (SStep.toSClosed $h)
      | with_reducible apply SClosed.setRepl_inv (SStep.toSClosed $h)
      | with_reducible apply SClosed.notifyFlr_inv (SStep.toSClosed $h)
      | with_reducible apply SClosed.panic (SStep.toSClosed $h)
      | with_reducible apply SClosed.reply (SStep.toSClosed $h)
      | with_reducible apply SClosed.point (SStep.toSClosed $h)
      | with_reducible apply SClosed.changeConfigR (SStep.toSClosed $h)
      | with_reducible apply SClosed.setCommitIndexR (SStep.toSClosed $h)
      | with_reducible apply SClosed.ldr (SStep.toSClosed $h)
      | with_reducible apply SClosed.fsm (SStep.toSClosed $h)
      | with_reducible apply SStep.setRole $h
      | with_reducible apply SStep.setLeader $h
      | with_reducible apply SStep.setTerm $h
      | with_reducible apply SStep.revertConfig $h
      | with_reducible apply SStep.snapPending $h
      | with_reducible apply SStep.candTransfer $h
      | with_reducible apply SStep.votesNeeded $h
      | with_reducible apply SStep.rpcReply $h
      | split)

syntax "sinv_auto " term : tactic
macro_rules
  | `(tactic| sinv_auto $h) => `(tactic| repeat' (sinv_step $h))

namespace SStep
variable {Inv : Node → Prop} (h : SStep Inv)
include h

theorem resolveConflict_inv (s : Node) (ne : Entry) (pt : Nat) (hs : Inv s) : Inv (s.resolveConflict ne pt) := by
  unfold Node.resolveConflict
  split
  · split
    · exact h.panic _ _ hs
    · rename_i t ht
      have hg : s.log.prev < ne.index ∧ ne.index ≤ s.log.last := by
        unfold Node.entryTerm? NLog.get? at ht
        split at ht
        · rename_i hlt
          cases hx : s.log.entries[ne.index - s.log.prev - 1]? with
          | none => rw [hx] at ht; cases ht
          | some e =>
            have := (List.getElem?_eq_some_iff.mp hx).1
            unfold NLog.last
            exact ⟨hlt, by omega⟩
        · cases ht
      have h1 := h.removeGTE_inv s ne.index pt hs hg.1 hg.2
      dsimp only
      split
      · exact h.revertConfig _ h1
      · exact h1
  · exact hs

theorem appendLoop_inv (st : AppLoop) (es : List Entry) (hs : Inv st.s) : Inv (appendLoop st es).s := by
  induction es generalizing st with
  | nil => exact hs
  | cons ne rest ih =>
    unfold appendLoop
    dsimp only
    have hR : ∀ x a b, Inv x → Inv (x.resolveConflict a b) := fun x a b hx => h.resolveConflict_inv x a b hx
    repeat' (first | sinv_step h | apply hR)
    all_goals (first | (apply ih; dsimp only; repeat' (first | sinv_step h | apply hR)) | skip)

theorem appendCheck_inv (s : Node) (q : AppendReq) (hs : Inv s) : Inv (s.appendCheck q) := by
  unfold Node.appendCheck
  dsimp only
  sinv_auto h
  all_goals (simp only [Node.canCommit, Bool.and_eq_true, decide_eq_true_eq] at *; omega)

theorem onAppendEntries_inv (s : Node) (q : AppendReq) (hs : Inv s) : Inv (s.onAppendEntries q) := by
  unfold Node.onAppendEntries
  dsimp only
  have hA : ∀ x, Inv x → Inv (x.appendCheck q) := fun x hx => h.appendCheck_inv x q hx
  have hL : ∀ st, Inv st.s → Inv (appendLoop st q.entries).s := fun st hst => h.appendLoop_inv st _ hst
  repeat' (first | sinv_step h | (apply hA) | (apply hL; dsimp only))
  all_goals (simp only [Node.canCommit, Bool.and_eq_true, decide_eq_true_eq] at *; omega)

theorem onTimeoutNow_inv (s : Node) (hs : Inv s) : Inv s.onTimeoutNow := by
  unfold Node.onTimeoutNow
  sinv_auto h

theorem onTakeSnapshot_inv (s : Node) (t th : Nat) (hs : Inv s) : Inv (s.onTakeSnapshot t th) := by
  unfold Node.onTakeSnapshot
  sinv_auto h

theorem replUpdLoop_inv (s : Node) (f : UpdFlags) (us : List ReplUpdate) (hs : Inv s) :
    Inv (replUpdLoop s f us).1 := by
  induction us generalizing s f with
  | nil => exact hs
  | cons u us ih =>
    unfold replUpdLoop
    dsimp only
    repeat' (first | sinv_step h | apply ih)

theorem checkLogCompact_inv (s : Node) (hs : Inv s) : Inv s.checkLogCompact := by
  unfold Node.checkLogCompact
  sinv_auto h

theorem checkReplUpdates_inv (s : Node) (us : List ReplUpdate) (hs : Inv s) : Inv (s.checkReplUpdates us) := by
  unfold Node.checkReplUpdates
  dsimp only
  have hL : Inv (replUpdLoop s {} us).1 := h.replUpdLoop_inv _ _ _ hs
  have hC : ∀ x, Inv x → Inv x.checkLogCompact := fun x hx => h.checkLogCompact_inv x hx
  repeat' (first | sinv_step h | apply hC)

theorem rejectEntries_inv (s : Node) (b : List QItem) (hs : Inv s) : Inv (s.rejectEntries b) := by
  induction b generalizing s with
  | nil => exact hs
  | cons q qs ih =>
    unfold Node.rejectEntries
    dsimp only
    repeat' (first | sinv_step h | apply ih)

theorem onWaitForStable_inv (s : Node) (t : Nat) (hs : Inv s) : Inv (s.onWaitForStable t) := by
  unfold Node.onWaitForStable
  sinv_auto h

theorem rpcDone_inv (s : Node) (a b : Bool) (hs : Inv s) : Inv (s.rpcDone a b) := by
  unfold Node.rpcDone
  sinv_auto h

/-- every case of `handle`, for the operations of the `_partial` model (`CommitRel.OpOK2`) -/
theorem handle_inv (s : Node) (op : Op) (hok : OpOK2 op) (hs : Inv s) : Inv (s.handle op) := by
  obtain ⟨hok1, _, hok3⟩ := hok
  cases op <;> unfold Node.handle <;> dsimp only
  case vote q => exact h.rpcDone_inv _ _ _ (h.onVoteRequest_inv _ _ hs)
  case append q => exact h.rpcDone_inv _ _ _ (h.onAppendEntries_inv _ _ hs)
  case install q => exact absurd hok1 (by simp [OpOK])
  case timeoutNow => exact h.rpcDone_inv _ _ _ (h.onTimeoutNow_inv _ hs)
  case identity a b c => exact h.rpcReply _ _ hs
  case disconnected n => sinv_auto h
  case timeout => sinv_auto h
  case newEntries b => split; exact h.storeEntry_inv _ _ _ hs; exact h.rejectEntries_inv _ _ hs
  case changeConfig => exact absurd rfl (hok3 _ _)
  case takeSnapshot t th => exact h.onTakeSnapshot_inv _ _ _ hs
  case snapRun => exact absurd hok1 (by simp [OpOK])
  case snapTaken => exact absurd hok1 (by simp [OpOK])
  case waitStable t => split; exact h.onWaitForStable_inv _ _ hs; exact h.reply _ _ _ hs
  case transfer t g => sinv_auto h
  case voteResult e t r => sinv_auto h
  case replUpdates us => split; exact h.checkReplUpdates_inv _ _ hs; exact hs
  case transferTimeout => sinv_auto h
  case timeoutNowResult a b c => sinv_auto h
  case newTermTimeout => sinv_auto h
  case shutdown => exact absurd hok1 (by simp [OpOK])

/-- **Composition theorem**: a predicate closed in this sense, which holds after `Node.begin`, holds after the step. -/
theorem step_inv (s : Node) (op : Op) (ra : List Nat) (ord : List (List Nat)) (hok : OpOK2 op)
    (hs : Inv (s.begin ra ord)) : Inv (s.step op ra ord) := by
  unfold Node.step
  dsimp only
  have h1 := h.handle_inv _ op hok hs
  split
  · exact h1
  · exact h.settle_inv _ _ _ h1

end SStep

/-! ### the instance: the segment list, in memory and at every crash point -/

/-- every boundary is at most the last one -/
theorem le_lastSegPrev (l : NLog) (h : C09.SegsOK l) : ∀ y ∈ l.segs, y ≤ l.lastSegPrev := by
  intro y hy
  unfold NLog.lastSegPrev
  have hne : l.segs ≠ [] := List.ne_nil_of_mem hy
  rw [List.getLast?_eq_some_getLast hne]
  show y ≤ l.segs.getLast hne
  rcases List.mem_iff_getElem.mp hy with ⟨a, ha, rfl⟩
  rw [List.getLast_eq_getElem]
  by_cases hlast : a = l.segs.length - 1
  · subst hlast; exact Nat.le_refl _
  · exact Nat.le_of_lt (List.pairwise_iff_getElem.mp h.sorted a (l.segs.length - 1) ha (by omega) (by omega))

theorem lastSegPrev_mem (l : NLog) (h : C09.SegsOK l) : l.lastSegPrev ∈ l.segs := by
  have hne : l.segs ≠ [] := by
    intro e; have := h.head; rw [e] at this; cases this
  unfold NLog.lastSegPrev
  rw [List.getLast?_eq_some_getLast hne]
  exact List.getLast_mem hne

theorem prev_le_lastSegPrev (l : NLog) (h : C09.SegsOK l) : l.prev ≤ l.lastSegPrev := by
  apply le_lastSegPrev l h
  have := h.head
  cases hs : l.segs with
  | nil => rw [hs] at this; cases this
  | cons a t =>
    rw [hs] at this
    injection this with this
    rw [this]; exact List.mem_cons_self ..

/-- **the durable image of a well-formed log has a well-formed segment list** -/
theorem segsOK_durable (l : NLog) (h : C09.SegsOK l) (hw : C06.LogWF l) : C09.SegsOK l.durable := by
  have hp := prev_le_lastSegPrev l h
  obtain ⟨w1, w2⟩ := hw
  refine ⟨h.sorted, h.head, fun y hy => ?_⟩
  show y ≤ l.prev + (l.entries.take (l.flushed - l.prev)).length
  have hy' := le_lastSegPrev l h y hy
  rw [List.length_take]
  unfold NLog.last at w2
  omega

/-- what is claimed of the segment list while the step has not failed: well formed in memory (`SegsOK`, `LogWF`,
the cached last index is right) and at every crash point recorded so far -/
structure SegQ (s : Node) : Prop where
  segs : C09.SegsOK s.log
  lwf : C06.LogWF s.log
  last : s.lastLogIndex = s.log.last
  tr : ∀ p ∈ s.trace, C09.SegsOK p.2.log

/-- … unless the step has failed (the Go process is dead; the model runs on a totalised path) -/
def SegInv (s : Node) : Prop := s.panicked = none → SegQ s

theorem segInv_irr {s s' : Node} (h : SegInv s) (e1 : s'.log = s.log) (e2 : s'.lastLogIndex = s.lastLogIndex)
    (e3 : s'.trace = s.trace) (e4 : s'.panicked = none → s.panicked = none) : SegInv s' := by
  intro hp
  obtain ⟨a, b, c, d⟩ := h (e4 hp)
  exact ⟨by rw [e1]; exact a, by rw [e1]; exact b, by rw [e2, e1]; exact c, by rw [e3]; exact d⟩

theorem segInv_panic (s : Node) (site : String) : SegInv (s.panic site) :=
  fun hp => absurd hp (panic_panicked_ne s site)

theorem segInv_point {s : Node} (n : String) (h : SegInv s) : SegInv (s.point n) := by
  intro hp
  obtain ⟨a, b, c, d⟩ := h hp
  refine ⟨a, b, c, fun p hp' => ?_⟩
  simp only [Node.point, List.mem_append, List.mem_singleton] at hp'
  rcases hp' with hp' | hp'
  · exact d p hp'
  · subst hp'
    exact segsOK_durable _ a b

theorem segInv_storeTermVote {s : Node} (t c : Nat) (h : SegInv s) : SegInv (s.storeTermVote t c) := by
  unfold Node.storeTermVote
  dsimp only
  split
  · exact segInv_irr h rfl rfl rfl id
  · exact segInv_irr (segInv_point "value.set" (segInv_irr (s' := { s with durTerm := t, durVote := c }) h rfl rfl rfl id))
      rfl rfl rfl id

theorem segInv_setTerm {s : Node} (t : Nat) (h : SegInv s) : SegInv (s.setTerm t) := by
  unfold Node.setTerm
  split
  · split
    · exact segInv_storeTermVote _ _ h
    · exact segInv_panic _ _
  · exact h

theorem segInv_setVotedFor {s : Node} (t c : Nat) (h : SegInv s) : SegInv (s.setVotedFor t c) := by
  unfold Node.setVotedFor
  split
  · split
    · exact segInv_storeTermVote _ _ h
    · exact segInv_panic _ _
  · exact h

theorem segInv_appendEntry {s : Node} (e : Entry) (h : SegInv s) : SegInv (s.appendEntry e) := by
  unfold Node.appendEntry Node.assert
  dsimp only
  split
  · rename_i hb
    intro hp
    obtain ⟨a, b, c, d⟩ := h hp
    have hidx : e.index = s.lastLogIndex + 1 := by simpa using hb
    refine ⟨Order.segsOK_append _ _ _ a (fun hr => ?_), (logwf_append _ _ _ b).1, ?_, d⟩
    · simp only [Bool.and_eq_true, bne_iff_ne, ne_eq] at hr
      rw [← c]
      intro hx
      exact hr.2 (by rw [hx, hidx]; omega)
    · show e.index = (NLog.append _ _ _).last
      rw [Order.last_append, ← c, hidx]
  · intro hp
    exact absurd hp (panic_panicked_ne s _)

theorem segInv_commitN {s : Node} (n : Nat) (h : SegInv s) : SegInv { s with log := s.log.commitN n } := by
  intro hp
  obtain ⟨a, b, c, d⟩ := h hp
  have hl : (s.log.commitN n).last = s.log.last := by unfold NLog.commitN NLog.last; split <;> rfl
  refine ⟨?_, (logwf_commitN _ n b).1, by show s.lastLogIndex = _; rw [hl]; exact c, d⟩
  refine ⟨?_, ?_, fun y hy => ?_⟩
  · have : (s.log.commitN n).segs = s.log.segs := by unfold NLog.commitN; split <;> rfl
    rw [this]; exact a.sorted
  · have e1 : (s.log.commitN n).segs = s.log.segs := by unfold NLog.commitN; split <;> rfl
    have e2 : (s.log.commitN n).prev = s.log.prev := by unfold NLog.commitN; split <;> rfl
    rw [e1, e2]; exact a.head
  · have e1 : (s.log.commitN n).segs = s.log.segs := by unfold NLog.commitN; split <;> rfl
    rw [e1] at hy
    rw [hl]; exact a.le_last y hy

theorem segInv_removeGTE {s : Node} (i pt : Nat) (h : SegInv s) (h1 : s.log.prev < i) (h2 : i ≤ s.log.last) :
    SegInv { s with log := s.log.removeGTE i, lastLogIndex := i - 1, lastLogTerm := pt } := by
  intro hp
  obtain ⟨a, b, c, d⟩ := h hp
  have hl := Order.last_removeGTE s.log i h1 h2
  have hs := Order.segsOK_removeGTE s.log i a h1 h2
  refine ⟨hs, ⟨?_, ?_⟩, hl.symm, d⟩
  · show (s.log.removeGTE i).lastSegPrev ≤ i - 1
    have := hs.le_last _ (lastSegPrev_mem _ hs)
    rw [hl] at this; exact this
  · show i - 1 ≤ (s.log.removeGTE i).last
    rw [hl]; exact Nat.le_refl _

theorem segInv_removeLTE {s : Node} (i : Nat) (h : SegInv s) : SegInv { s with log := s.log.removeLTE i } := by
  intro hp
  obtain ⟨a, b, c, d⟩ := h hp
  obtain ⟨_, _, _, _, hl, _, hs⟩ := C09.removeLTE_whole_segments s.log i a
  refine ⟨hs, ⟨?_, ?_⟩, by show s.lastLogIndex = _; rw [hl]; exact c, d⟩
  · show (s.log.removeLTE i).lastSegPrev ≤ s.log.last
    have := hs.le_last _ (lastSegPrev_mem _ hs)
    rw [hl] at this; exact this
  · show s.log.last ≤ (s.log.removeLTE i).last
    rw [hl]; exact Nat.le_refl _

theorem setCommitIndexR_keeps (s : Node) (i : Nat) :
    (s.setCommitIndexR i).1.log = s.log ∧ (s.setCommitIndexR i).1.lastLogIndex = s.lastLogIndex ∧
    (s.setCommitIndexR i).1.trace = s.trace ∧ (s.setCommitIndexR i).1.panicked = s.panicked := by
  refine ⟨?_, ?_, ?_, ?_⟩ <;>
    (unfold Node.setCommitIndexR Node.afterConfigCommit Node.closeIfRemoved Node.stepDownIfNotVoter
      Node.commitConfig Node.doClose; dsimp only; repeat' split) <;> rfl

theorem segStep : SStep SegInv where
  panic := fun s site _ => segInv_panic s site
  reply := fun s t r h => by
    refine segInv_irr h ?_ ?_ ?_ ?_ <;> (unfold Node.reply; split) <;> first | rfl | exact id
  point := fun s n h => segInv_point n h
  ldr := fun s l h => segInv_irr h rfl rfl rfl id
  appendEntry := fun s e h => segInv_appendEntry e h
  commitN := fun s n h => segInv_commitN n h
  fsm := fun s f h => segInv_irr h rfl rfl rfl id
  changeConfigR := fun s c h => by
    refine segInv_irr h ?_ ?_ ?_ ?_ <;> (unfold Node.changeConfigR; dsimp only; split) <;> first | rfl | exact id
  setCommitIndexR := fun s i h _ => by
    obtain ⟨e1, e2, e3, e4⟩ := setCommitIndexR_keeps s i
    exact segInv_irr h e1 e2 e3 (fun hp => by rw [← e4]; exact hp)
  popOrder := fun s h => segInv_irr h rfl rfl rfl id
  rpcReply := fun s r h => segInv_irr h rfl rfl rfl id
  ret := fun s r h => segInv_irr h rfl rfl rfl id
  setRole := fun s r h => segInv_irr h rfl rfl rfl id
  setLeader := fun s l h => segInv_irr h rfl rfl rfl id
  setTerm := fun s t h => segInv_setTerm t h
  voteNewTerm := fun s t c h _ => segInv_setVotedFor t c h
  voteGrant := fun s c h _ => segInv_setVotedFor _ c h
  votesNeeded := fun s v h => segInv_irr h rfl rfl rfl id
  candTransfer := fun s v h => segInv_irr h rfl rfl rfl id
  removeGTE := fun s i pt h h1 h2 => segInv_removeGTE i pt h h1 h2
  removeLTE := fun s i h => segInv_removeLTE i h
  revertConfig := fun s h => segInv_irr h rfl rfl rfl id
  snapPending := fun s v h => segInv_irr h rfl rfl rfl id

/-- **the segment list at every moment a process may die**: from a state whose segment list is well formed, for an
operation of the `_partial` model handled without failure, what is on disk after `k` storage points (`k = 0`: when
the step starts; beyond the last point: when it has completed) has a well-formed segment list — for every `k`. -/
theorem crashDisk_segsOK (s : Node) (op : Op) (ra : List Nat) (ord : List (List Nat)) (k : Nat) (hok : OpOK2 op)
    (h1 : C09.SegsOK s.log) (h2 : C06.LogWF s.log) (h3 : s.lastLogIndex = s.log.last)
    (hp : k ≠ 0 → (s.step op ra ord).panicked = none) : C09.SegsOK (C05.crashDisk s op ra ord k).log := by
  rcases k with _ | k
  · exact segsOK_durable _ h1 h2
  · have h0 : SegInv (s.begin ra ord) := fun _ => ⟨h1, h2, h3, fun p hp' => by cases hp'⟩
    obtain ⟨a, b, _, d⟩ := segStep.step_inv s op ra ord hok h0 (hp (Nat.succ_ne_zero k))
    rcases C04Sys.crashDisk_cases s op ra ord (k + 1) with e | ⟨p, hp', e⟩ | e
    · rw [e]; exact segsOK_durable _ h1 h2
    · rw [e]; exact d p hp'
    · rw [e]; exact segsOK_durable _ a b

/-! ## Part 2: the cluster -/

/-- a configuration entry has index 1 (it is the bootstrap entry) and decodes to a configuration every node can
hold: own action defined, two voters without pending action (`NoPanic.CfgOk true`) -/
def CfgGoodE (e : Entry) : Prop := e.typ = etConfig → e.index = 1 ∧ ∀ nid, cfgOkOpt true nid e.cfg

/-- **the invariant** (on top of `Commit.CInv` and the side conditions): every node is `Good true`; both
configurations of every node have an index ≤ 1; every configuration entry of the tree of created entries is a
bootstrap entry (`CfgGoodE`); the tree has one root (no two records with the same index ≤ 1 and different terms). -/
structure GInv (x : Commit.Sys) : Prop where
  good : ∀ i, Good true (x.node i)
  cfg : ∀ i, CfgLe1 (x.node i).configs
  tree : ∀ c ∈ x.T, CfgGoodE c.e
  root : ∀ c ∈ x.T, ∀ d ∈ x.T, c.e.index = d.e.index → c.e.index ≤ 1 → c.e.term = d.e.term

/-- **two more assumptions on what is delivered to node `i`** (beyond `Commit.Enabled`):
* a `newTerm` report of a replication (one that was not removed) delivered to a leader carries a term that is not
  below the leader's term (`replication` reports a term only when a response carries a higher one than the term it
  was started with; a leader of a later term has new replications);
* a transport error reported for the `timeoutNow` request of a leadership transfer names a node the leader has a
  replication for (the request went to a replication's node). -/
structure EnabledG (x : Commit.Sys) (i : Nat) (op : Op) : Prop where
  newTerm : ∀ us, op = .replUpdates us → (x.node i).role = .leader → ∀ u ∈ us, u.removed = false →
    ∀ v, u.upd = .newTerm v → (x.node i).term ≤ v
  timeoutNow : ∀ src err r, op = .timeoutNowResult src err r → (x.node i).role = .leader →
    (x.node i).ldr.transfer.respPending = true → err = true → (x.node i).findRepl? src ≠ none

/-- **one more side condition on every state of a run** (beyond `Commit.SideV`): every node retains at least one
snapshot (`Options.validate` demands `SnapshotsRetain ≥ 1`; the option is a parameter of every restart). -/
def SideG (x : Commit.Sys) : Prop := ∀ i, 1 ≤ (x.node i).retain

section facts
variable {V : List Nat} {x : Commit.Sys}

/-- every entry of a node's log is a record of the tree -/
theorem log_cfg (hI : CInv V x) (hG : GInv x) (i : Nat) : ∀ e ∈ (x.node i).log.entries, CfgGoodE e := by
  intro e he
  obtain ⟨c, hc, hce⟩ := C04Sys.chain_mem (hI.rp.nodes i).2 e he
  rw [← hce]; exact hG.tree c hc

/-- … and so is every entry of a request on the wire -/
theorem sent_cfg (hI : CInv V x) (hG : GInv x) {q : AppendReq} (hq : q ∈ x.rp.sent) :
    ∀ e ∈ q.entries, CfgGoodE e := by
  intro e he
  obtain ⟨c, hc, hce⟩ := C04Sys.chain_mem (hI.rp.sent q hq).chain e he
  rw [← hce]; exact hG.tree c hc

/-- the latest configuration of every node is the bootstrap entry's -/
theorem latest_one (hS : SideV V x) (hG : GInv x) (i : Nat) : (x.node i).configs.latest.index = 1 := by
  have h1 := (hS.1 i).1
  have h2 := (hG.cfg i).2
  unfold Configs.isBootstrapped Config.isBootstrapped at h1
  have : (x.node i).configs.latest.index > 0 := of_decide_eq_true h1
  omega

theorem last_pos (hS : SideV V x) (hG : GInv x) (i : Nat) : 1 ≤ (x.node i).lastLogIndex := by
  have := (hG.good i).ordered.latest_le_last
  rw [latest_one hS hG i] at this
  exact this

/-- **every enabled operation is acceptable at its receiver in the sense of `NoPanic.ReqOk' true`** -/
theorem reqok' (hV : V.Nodup) (hR : Commit.ReachableV V x) (hG : GInv x) {i : Nat} {op : Op} {src : Nat}
    (he : Commit.Enabled x i op src) (heG : EnabledG x i op) : ReqOk' true (x.node i) op := by
  obtain ⟨hI, hS⟩ := inv_reachable hV hR
  cases op with
  | append q =>
    show q.term < (x.node i).term ∨ AppendOk' true (x.node i) q
    by_cases hst : q.term < (x.node i).term
    · exact Or.inl hst
    · right
      have hq : q ∈ x.rp.sent := (he.rp.append q rfl).resolve_left hst
      have hro : q.term < (x.node i).term ∨ Order.AppendOk (x.node i) q :=
        reqok_in_sys_partial V hV x hR i (.append q) src he
          (Or.inr (fun c hc d hd hcd hle => hG.root c hc d hd hcd (Nat.le_trans hle (hG.cfg i).1)))
      exact ⟨hro.resolve_left hst, fun ne hne ht => ((sent_cfg hI hG hq ne hne) ht).2 _⟩
  | install q => exact absurd he.rp.ok (by simp [OpOK])
  | newEntries b =>
    show (x.node i).role = .leader → BatchOk true (x.node i).nid b
    intro _ q hq ht
    exact absurd ht (he.ok2.2.1 b rfl q hq)
  | changeConfig t c => exact absurd rfl (he.ok2.2.2 t c)
  | replUpdates us =>
    show (x.node i).role = .leader → ∀ u ∈ us, UpdOk (x.node i) u
    intro hl u hu hr
    refine ⟨fun v hv => ?_, fun v hv => heG.newTerm us rfl hl u hu hr v hv⟩
    rcases he.upd us rfl u hu v hv with h0 | ⟨a, ha, _, h2, h3⟩
    · rw [h0]; exact Nat.zero_le _
    · have := (ack_on_leader hV hI hl ha h2).2.1
      rw [(nwf hI i).last]; omega
  | timeoutNowResult s e r =>
    show (x.node i).role = .leader → (x.node i).ldr.transfer.respPending = true → e = true →
      (x.node i).findRepl? s ≠ none
    exact heG.timeoutNow s e r rfl
  | _ => trivial

/-- the tree after a transition: old records, and new ones that are no configuration entries and lie beyond index 1 -/
theorem tree_ext {y : Commit.Sys} (hG : GInv x)
    (hnew : ∀ c ∈ y.T, c ∈ x.T ∨ (2 ≤ c.e.index ∧ c.e.typ ≠ etConfig)) :
    (∀ c ∈ y.T, CfgGoodE c.e) ∧
    (∀ c ∈ y.T, ∀ d ∈ y.T, c.e.index = d.e.index → c.e.index ≤ 1 → c.e.term = d.e.term) := by
  refine ⟨fun c hc => ?_, fun c hc d hd hcd hle => ?_⟩
  · rcases hnew c hc with h | h
    · exact hG.tree c h
    · exact fun ht => absurd ht h.2
  · rcases hnew c hc with h | h
    · rcases hnew d hd with h' | h'
      · exact hG.root c h d h' hcd hle
      · omega
    · omega

end facts

/-! ### a completed step -/

section step
variable {V : List Nat} {x : Commit.Sys} {i : Nat} {op : Op} {ra : List Nat} {ord : List (List Nat)} {src : Nat}

theorem sc_opOk (h : SC V x i op ra ord src) : CfgRel.OpOk op := by
  have he := h.en
  cases op with
  | newEntries b => exact he.ok2.2.1 b rfl
  | changeConfig t c => exact absurd rfl (he.ok2.2.2 t c)
  | _ => trivial

theorem sc_not_install (h : SC V x i op ra ord src) : ∀ q, op ≠ .install q := by
  intro q hq
  have := h.en.rp.ok
  rw [hq] at this
  exact this

theorem sc_not_change (h : SC V x i op ra ord src) : ∀ t c, op ≠ .changeConfig t c := h.en.ok2.2.2

/-- the step completes without failure, in a good state -/
theorem sc_good (h : SC V x i op ra ord src) (hR : Commit.ReachableV V x) (ho : (x.node i).closed = "")
    (hG : GInv x) (heG : EnabledG x i op) :
    ((x.node i).step op ra ord).panicked = none ∧ Good true ((x.node i).step op ra ord) :=
  C15NoPanic.good_step_two _ op ra ord (hG.good i) ho (reqok' h.hV hR hG h.en heG)

/-- a step that is not an append request appends no configuration entry -/
theorem sc_post_cfg (h : SC V x i op ra ord src) (ho : (x.node i).closed = "") (hG : GInv x)
    (hp : ((x.node i).step op ra ord).panicked = none) (happ : ∀ q, op ≠ .append q) :
    ∀ e ∈ ((x.node i).step op ra ord).log.entries, e.typ = etConfig → e.index ≤ 1 :=
  step_cfg_entries _ op ra ord (hG.good i) ho (sc_opOk h) happ hp
    (fun e he ht => ((log_cfg h.inv hG i e he) ht).1) (latest_one h.side hG i) (h.nst happ).cfg

/-- both configurations after the step have an index ≤ 1 -/
theorem sc_cfg_post (h : SC V x i op ra ord src) (ho : (x.node i).closed = "") (hG : GInv x) :
    CfgLe1 ((x.node i).step op ra ord).configs := by
  rcases SC.op_cases op with happ | ⟨q, rfl⟩
  · exact step_cfgLe1 _ op ra ord (hG.good i) ho (sc_opOk h) happ (sc_not_install h) (sc_not_change h) (hG.cfg i)
      (h.nst happ).cfg
  · by_cases hst : q.term < (x.node i).term
    · rw [(append_stale _ q ra ord hst).2.2.2.2.2.2.1]; exact hG.cfg i
    · have hq : q ∈ x.rp.sent := (h.en.rp.append q rfl).resolve_left hst
      refine append_cfgLe1 _ q ra ord (hG.good i).ordered.latest_le_last (anchC_of_good (hG.good i)) (hG.cfg i)
        (fun e he c hc => ?_)
      have ht : e.typ = etConfig := by
        unfold Entry.config? at hc
        split at hc
        · assumption
        · cases hc
      rw [Order.config?_index hc, ((sent_cfg h.inv hG hq e he) ht).1]
      exact Nat.le_refl _

/-- **the invariant after a completed step** -/
theorem sc_ginv (h : SC V x i op ra ord src) (hR : Commit.ReachableV V x) (ho : (x.node i).closed = "")
    (hG : GInv x) (heG : EnabledG x i op) : GInv (stepC x i op ra ord src) := by
  obtain ⟨hp, hGood⟩ := (sc_good h) hR ho hG heG
  have hnew : ∀ c ∈ (stepC x i op ra ord src).T, c ∈ x.T ∨ (2 ≤ c.e.index ∧ c.e.typ ≠ etConfig) := by
    intro c hc
    rw [h.T_eq] at hc
    rcases List.mem_append.mp hc with hc | hc
    · right
      rcases SC.op_cases op with happ | ⟨q, rfl⟩
      · rw [C04Sys.newCreated_other _ _ _ _ happ] at hc
        have hm := (C04Sys.mem_chainOf hc).2
        have hi := ((C04Sys.contig_drop h.nwf_post.contig (x.node i).log.entries.length).2 c.e hm).1
        have hl := last_pos h.side hG i
        rw [(nwf h.inv i).last] at hl
        refine ⟨by omega, fun ht => ?_⟩
        have := (sc_post_cfg h) ho hG hp happ c.e (List.mem_of_mem_drop hm) ht
        omega
      · cases hc
    · exact Or.inl hc
  obtain ⟨t1, t2⟩ := tree_ext hG hnew
  refine ⟨fun j => ?_, fun j => ?_, t1, t2⟩
  · by_cases hj : j = i
    · subst hj; rw [h.node_i]; exact hGood
    · rw [h.node_j hj]; exact hG.good j
  · by_cases hj : j = i
    · subst hj; rw [h.node_i]; exact (sc_cfg_post h) ho hG
    · rw [h.node_j hj]; exact hG.cfg j

end step

/-! ### a crash during a step, and the restart -/

section crash
variable {V : List Nat} {x : Commit.Sys} {i : Nat} {op : Op} {ra : List Nat} {ord : List (List Nat)}
  {src k retain : Nat} {sor : Bool} {n : Node}

/-- **the invariant after a crash and restart.** `hopen`: the node was open (its state loop was running), or it did
not handle anything when it died (`k = 0`: a closed node's process is restarted); `hret`: the restart retains at
least one snapshot. -/
theorem cc_ginv (h : CC V x i op ra ord src k retain sor n) (hR : Commit.ReachableV V x)
    (hG : GInv x) (heG : EnabledG x i op) (hopen : (x.node i).closed = "" ∨ k = 0) (hret : 1 ≤ retain) :
    GInv (crashC x i op n) := by
  have sc := h.sc
  have hI := sc.inv
  have im := sc.img k
  have hseg : C09.SegsOK (C05.crashDisk (x.node i) op ra ord k).log :=
    crashDisk_segsOK _ op ra ord k sc.en.ok2 (hG.good i).ordered.segs (hI.node.lwf i) (hG.good i).ordered.last_eq
      (fun hk => (sc_good sc hR (hopen.resolve_right hk) hG heG).1)
  obtain ⟨_, _, _, f4, _, _, _, _, f9⟩ := h.facts
  have hnwf : NWF n := by
    have := (h.ry.nodes i).1
    rwa [show (crashC x i op n).rp.el.node i = n from h.node_i] at this
  have hchain : Chain (crashC x i op n).T none n.log.entries := by
    have := (h.ry.nodes i).2
    rwa [show (crashC x i op n).rp.el.node i = n from h.node_i] at this
  have hl := last_pos sc.side hG i
  rw [(nwf hI i).last] at hl
  have hnew : ∀ c ∈ (crashC x i op n).T, c ∈ x.T ∨ (2 ≤ c.e.index ∧ c.e.typ ≠ etConfig) := by
    intro c hc
    have hc' : c ∈ newCreated i (x.node i).log.entries n.log.entries op ++ x.T := hc
    rcases List.mem_append.mp hc' with hc | hc
    · right
      rcases SC.op_cases op with happ | ⟨q, rfl⟩
      · rw [C04Sys.newCreated_other _ _ _ _ happ] at hc
        have hm := (C04Sys.mem_chainOf hc).2
        have hi := ((C04Sys.contig_drop hnwf.contig (x.node i).log.entries.length).2 c.e hm).1
        refine ⟨by omega, fun ht => ?_⟩
        have hmem : c.e ∈ (C05.crashDisk (x.node i) op ra ord k).log.entries := by
          rw [← f9]; exact List.mem_of_mem_drop hm
        have hold : (C05.crashDisk (x.node i) op ra ord k).log.entries <+: (x.node i).log.entries → False := by
          intro w
          have hle := w.length_le
          rw [← f9] at hle
          rw [List.drop_eq_nil_of_le hle] at hm
          cases hm
        rcases hopen with ho | hk
        · obtain ⟨hp, _⟩ := sc_good sc hR ho hG heG
          rcases im.within happ with w | w
          · exact hold w
          · have := sc_post_cfg sc ho hG hp happ c.e (w.subset hmem) ht
            omega
        · subst hk
          apply hold
          show (x.node i).log.durable.entries <+: _
          rw [durable_entries (nwf hI i)]
          exact List.take_prefix _ _
      · cases hc
    · exact Or.inl hc
  obtain ⟨t1, t2⟩ := tree_ext hG hnew
  have hlog : ∀ e ∈ n.log.entries, CfgGoodE e := by
    intro e he
    obtain ⟨c, hc, hce⟩ := C04Sys.chain_mem hchain e he
    rw [← hce]; exact t1 c hc
  have hsnap : C10.snapOf (C05.crashDisk (x.node i) op ra ord k) = {} := by
    unfold C10.snapOf; rw [im.snaps]; rfl
  have hgood : Good true n := by
    refine C15NoPanic.restart_good _ retain sor n ⟨⟨?_, hseg, ?_, ?_⟩, hret, ?_, ?_, ?_⟩ h.hn
    · unfold C10.DurWF; rw [im.prev]; exact Nat.zero_le _
    · intro j e hj
      unfold NLog.get? at hj
      rw [im.prev] at hj
      split at hj
      · rw [Nat.sub_zero, ← f9] at hj
        obtain ⟨hlt, hge⟩ := List.getElem?_eq_some_iff.mp hj
        rw [← hge, hnwf.contig _ hlt]; omega
      · cases hj
    · rw [hsnap]; exact Nat.le_refl _
    · rw [im.snaps]; intro g hg; cases hg
    · intro ne hne ht
      rw [← f9] at hne
      exact ((hlog ne hne) ht).2 _
    · rw [hsnap]; exact cfgOk_empty _ _
  have hcfg : CfgLe1 n.configs := by
    refine restart_cfgLe1 _ retain sor n h.hn im.snaps im.prev (fun e he ht => ?_)
    rw [← f9] at he
    obtain ⟨a, b⟩ := (hlog e he) ht
    obtain ⟨c, hc, _⟩ := (b 0).get
    exact ⟨by rw [a]; exact Nat.le_refl _, by rw [hc]; rfl⟩
  refine ⟨fun j => ?_, fun j => ?_, t1, t2⟩
  · by_cases hj : j = i
    · subst hj; rw [h.node_i]; exact hgood
    · rw [h.node_j hj]; exact hG.good j
  · by_cases hj : j = i
    · subst hj; rw [h.node_i]; exact hcfg
    · rw [h.node_j hj]; exact hG.cfg j

/-- the restarted node tracks (C12Track): without a snapshot on disk the label is the empty configuration -/
theorem cc_tracks (h : CC V x i op ra ord src k retain sor n) (hret : 1 ≤ retain) : C12Track.Tracks n := by
  have im := h.sc.img k
  obtain ⟨_, _, _, _, _, _, _, _, f9⟩ := h.facts
  have hnwf : NWF n := by
    have := (h.ry.nodes i).1
    rwa [show (crashC x i op n).rp.el.node i = n from h.node_i] at this
  have hsnap : C10.snapOf (C05.crashDisk (x.node i) op ra ord k) = {} := by
    unfold C10.snapOf; rw [im.snaps]; rfl
  have hc : Contig (C05.crashDisk (x.node i) op ra ord k).log.entries := by
    rw [← f9]; exact hnwf.contig
  refine C12Track.restart_tracks _ retain sor n hret ⟨?_, ?_, ?_, ?_⟩ h.hn
  · intro k' hk'
    rw [im.prev, Nat.zero_add]
    exact hc k' hk'
  · rw [hsnap]
    apply Track.newest_of_nil
    unfold Track.pre
    show (List.take (0 - _) _).filterMap _ = []
    rw [Nat.zero_sub]; rfl
  · rw [hsnap]; intro hlt; exact absurd hlt (Nat.not_lt_zero _)
  · rw [hsnap]; intro _; rfl

end crash

/-! ### the transition system with the additional assumptions -/

/-- The transitions of `Commit.Trans` (Sys/Commit.lean) with the additional environment assumptions `EnabledG` on
the operation a node handles — to completion, or while it dies — and closed nodes frozen. -/
inductive TransG (x : Commit.Sys) : Commit.Sys → Prop
  /-- an OPEN node handles an enabled operation to completion (the state loop of a closed node has returned: it
  handles nothing any more) -/
  | step (i : Nat) (op : Op) (ra : List Nat) (ord : List (List Nat)) (src : Nat) : Commit.Enabled x i op src →
      EnabledG x i op → (x.node i).closed = "" → TransG x (stepC x i op ra ord src)
  /-- an open node dies while handling an enabled operation, after `k` storage points — or any node's process,
  open or closed, dies (is restarted) between two steps (`k = 0`) — and restarts from what is on disk -/
  | crash (i : Nat) (op : Op) (ra : List Nat) (ord : List (List Nat)) (src k retain : Nat) (sor : Bool)
      (n : Node) : Commit.Enabled x i op src → EnabledG x i op → ((x.node i).closed = "" ∨ k = 0) →
      Node.restart (C05.crashDisk (x.node i) op ra ord k) retain sor = some n →
      TransG x (crashC x i op n)
  /-- a leader puts a request read from its log on the wire -/
  | send (i : Nat) (q : AppendReq) : i ≠ 0 → (x.node i).role = .leader → ReadFrom (x.node i) q →
      q.ldrCommitIndex ≤ (x.node i).commitIndex → TransG x (sendC x q)

/-- a transition of the restricted system is a transition of `Commit` -/
theorem transG_trans {x y : Commit.Sys} (h : TransG x y) : Commit.Trans x y := by
  cases h with
  | step i op ra ord src he _ _ => exact .step i op ra ord src he
  | crash i op ra ord src k retain sor n he _ _ hn => exact .crash i op ra ord src k retain sor n he hn
  | send i q hi hl hr hc => exact .send i q hi hl hr hc

/-- **closed nodes are harmless**: a node that has closed itself does nothing any more — in a transition its state
stays as it is, unless its process is restarted from what it left on disk -/
theorem closed_frozen {x y : Commit.Sys} (ht : TransG x y) (j : Nat) (hc : (x.node j).closed ≠ "") :
    y.node j = x.node j ∨ ∃ n retain sor, Node.restart (x.node j).durable retain sor = some n ∧ y.node j = n := by
  cases ht with
  | step i op ra ord src he heG ho =>
    by_cases hj : j = i
    · subst hj; exact absurd ho hc
    · left
      show setNode x.rp.el.node i _ j = _
      rw [setNode_other _ _ _ _ hj]
  | crash i op ra ord src k retain sor n he heG hopen hn =>
    by_cases hj : j = i
    · subst hj
      rcases hopen with ho | hk
      · exact absurd ho hc
      · subst hk
        right
        refine ⟨n, retain, sor, hn, ?_⟩
        show setNode x.rp.el.node j n j = n
        rw [setNode_same]
    · left
      show setNode x.rp.el.node i n j = _
      rw [setNode_other _ _ _ _ hj]
  | send i q hi hl hr hcm => exact Or.inl rfl

/-- States reachable by runs of `TransG` in which `SideV V` and `SideG` hold in every state, from an initial state
(`Commit.Init`) that satisfies `GInv`. -/
inductive ReachableG (V : List Nat) : Commit.Sys → Prop
  | init (x : Commit.Sys) : Commit.Init x → SideV V x → SideG x → GInv x → ReachableG V x
  | next (x y : Commit.Sys) : ReachableG V x → TransG x y → SideV V y → SideG y → ReachableG V y

theorem reachableG_V {V : List Nat} {x : Commit.Sys} (h : ReachableG V x) : Commit.ReachableV V x := by
  induction h with
  | init x hi hs _ _ => exact .init x hi hs
  | next x y _ ht hs _ ih => exact .next x y ih (transG_trans ht) hs

theorem reachableG_side {V : List Nat} {x : Commit.Sys} (h : ReachableG V x) : SideG x := by
  cases h with
  | init x _ _ hs _ => exact hs
  | next x y _ _ _ hs => exact hs

/-- a run of the restricted system from `x` to `y`, with the side conditions in every state passed -/
inductive RunG (V : List Nat) (x : Commit.Sys) : Commit.Sys → Prop
  | refl : RunG V x x
  | next (y z : Commit.Sys) : RunG V x y → TransG y z → SideV V z → SideG z → RunG V x z

theorem run_reachableG {V : List Nat} {x y : Commit.Sys} (hx : ReachableG V x) (h : RunG V x y) :
    ReachableG V y := by
  induction h with
  | refl => exact hx
  | next y z _ ht hs hsg ih => exact .next y z ih ht hs hsg

/-- the restarted node keeps the options it was started with -/
theorem restart_retain (d : Durable) (r : Nat) (sor : Bool) (n : Node) (h : restart d r sor = some n) :
    n.retain = r := (C12Track.restart_more d r sor n h).1

theorem ginv_trans {V : List Nat} (hV : V.Nodup) {x y : Commit.Sys} (hR : Commit.ReachableV V x)
    (hG : GInv x) (ht : TransG x y) (hSGy : SideG y) : GInv y := by
  obtain ⟨hI, hS⟩ := inv_reachable hV hR
  cases ht with
  | step i op ra ord src he heG ho => exact sc_ginv ⟨hV, hI, hS, he⟩ hR ho hG heG
  | crash i op ra ord src k retain sor n he heG hopen hn =>
    have cc : CC V x i op ra ord src k retain sor n := ⟨⟨hV, hI, hS, he⟩, hn⟩
    refine cc_ginv cc hR hG heG hopen ?_
    have := hSGy i
    rw [cc.node_i, restart_retain _ _ _ _ hn] at this
    exact this
  | send i q hi hl hr hc => exact ⟨hG.good, hG.cfg, hG.tree, hG.root⟩

/-- **the invariant holds in every reachable state** -/
theorem ginv_reachable {V : List Nat} (hV : V.Nodup) {x : Commit.Sys} (h : ReachableG V x) : GInv x := by
  induction h with
  | init x _ _ _ hg => exact hg
  | next x y hx ht _ hsg ih => exact ginv_trans hV (reachableG_V hx) ih ht hsg

end SysInv
end Raft
