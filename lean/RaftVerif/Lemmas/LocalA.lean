/-
Helper lemmas shared by Props/C02, C03, C07, C15.

* `Closed`-only versions of the invariant lemmas for the leader-side handlers outside the mutually
  recursive block (`onTransfer`, `replyTransfer`, `onTimeoutNowResult`, `leaderInit`, `onChangeConfig`):
  these handlers use only the primitives of `Closed` (no role change, truncation, compaction), so an
  invariant that is NOT `StepClosed` (e.g. "the log only grew") still survives them.
* field frames of the small primitives (`panic`, `reply`, `assert`).
-/
import RaftVerif.Lemmas.StepInv

namespace Raft
namespace Node
namespace Closed

variable {Inv : Node → Prop} (h : Closed Inv)
include h

theorem storeEntry_inv' (f : Nat) (s : Node) (b) (hs : Inv s) : Inv (storeEntry f s b) := (h.block f).1 s b hs
theorem storeItems_inv' (f : Nat) (s : Node) (b) (hs : Inv s) : Inv (storeItems f s b) := (h.block f).2.1 s b hs
theorem changeConfigL_inv' (f : Nat) (s : Node) (c) (hs : Inv s) : Inv (changeConfigL f s c) :=
  (h.block f).2.2.1 s c hs
theorem doChangeConfig_inv' (f : Nat) (s : Node) (t c) (hs : Inv s) : Inv (doChangeConfig f s t c) :=
  (h.block f).2.2.2.1 s t c hs
theorem checkConfigActions_inv' (f : Nat) (s : Node) (t c) (hs : Inv s) : Inv (checkConfigActions f s t c) :=
  (h.block f).2.2.2.2.1 s t c hs
theorem checkConfigAction_inv' (f : Nat) (s : Node) (t c id) (hs : Inv s) : Inv (checkConfigAction f s t c id) :=
  (h.block f).2.2.2.2.2.1 s t c id hs
theorem setCommitIndexL_inv' (f : Nat) (s : Node) (i) (hs : Inv s) (hi : i > s.commitIndex) :
    Inv (setCommitIndexL f s i) := (h.block f).2.2.2.2.2.2.1 s i hs hi
theorem onMajorityCommit_inv' (f : Nat) (s : Node) (hs : Inv s) : Inv (onMajorityCommit f s) :=
  (h.block f).2.2.2.2.2.2.2 s hs

theorem transferReply_inv' (s : Node) (r : String) (hs : Inv s) : Inv (s.transferReply r) := by
  unfold Node.transferReply; exact h.ldr _ _ (h.reply _ _ _ hs)

theorem tryTransfer_inv' (s : Node) (hs : Inv s) : Inv s.tryTransfer := by
  unfold Node.tryTransfer; dsimp only
  have hp := h.popOrder s hs
  repeat' split
  all_goals first
    | exact hs
    | exact hp
    | exact h.panic _ _ hs
    | exact h.panic _ _ hp
    | exact h.ldr _ _ hs
    | exact h.ldr _ _ hp
    | exact h.ldr _ _ (h.panic _ _ hs)
    | exact h.ldr _ _ (h.panic _ _ hp)

theorem onTransfer_inv' (s : Node) (t g : Nat) (hs : Inv s) : Inv (s.onTransfer t g) := by
  unfold Node.onTransfer; dsimp only
  split
  · exact h.reply _ _ _ hs
  · exact h.tryTransfer_inv' _ (h.ldr _ _ hs)

theorem replyTransfer_inv' (s : Node) (r : String) (hs : Inv s) : Inv (s.replyTransfer r) := by
  unfold Node.replyTransfer; exact h.checkConfigActions_inv' _ _ _ _ (h.transferReply_inv' _ _ hs)

theorem onTimeoutNowResult_inv' (s : Node) (src : Nat) (e : Bool) (r : Nat) (hs : Inv s) :
    Inv (s.onTimeoutNowResult src e r) := by
  unfold Node.onTimeoutNowResult
  extract_lets l0 t0 s1 s2 l1 t1
  have h0 : Inv s1 := h.ldr _ _ hs
  have h2 : Inv s2 := by
    unfold s2
    split
    · split
      · exact h.setRepl_inv _ _ h0
      · exact h0
    · exact h.panic _ _ h0
  split
  · split
    · exact h.tryTransfer_inv' _ h2
    · exact h2
  · split
    · split
      · exact h.replyTransfer_inv' _ _ h0
      · exact h.tryTransfer_inv' _ h0
    · exact h.ldr _ _ h0

theorem leaderInit_inv' (s : Node) (hs : Inv s) : Inv s.leaderInit := by
  unfold Node.leaderInit; dsimp only
  apply h.storeEntry_inv'
  apply h.checkConfigActions_inv'
  apply Closed.foldl_inv
  · intro s x hs
    split
    · exact hs
    · exact h.addReplication_inv _ _ hs
  · exact h.ldr _ _ (h.assert_inv _ _ _ hs)

theorem onChangeConfig_inv' (s : Node) (t : Nat) (c : Config) (hs : Inv s) : Inv (s.onChangeConfig t c) := by
  unfold Node.onChangeConfig
  dsimp only
  repeat' split
  all_goals first
    | exact h.reply _ _ _ hs
    | exact h.doChangeConfig_inv' _ _ _ _ (h.checkConfigActions_inv' _ _ _ _ hs)
    | exact h.checkConfigActions_inv' _ _ _ _ hs

theorem onWaitForStable_inv' (s : Node) (t : Nat) (hs : Inv s) : Inv (s.onWaitForStable t) := by
  unfold Node.onWaitForStable
  split
  · exact h.reply _ _ _ hs
  · exact h.ldr _ _ hs

end Closed

/-! ### field frames of the smallest primitives -/

theorem panic_panicked_ne (s : Node) (site : String) : (s.panic site).panicked ≠ none := by
  unfold Node.panic
  split
  · simp
  · rename_i hn; intro he; rw [he] at hn; exact hn rfl

theorem reply_replies (s : Node) (t : Nat) (r : String) (ht : t ≠ 0) :
    (s.reply t r).replies = s.replies ++ [{ task := t, result := r }] := by
  unfold Node.reply; rw [if_neg ht]

theorem reply_zero (s : Node) (r : String) : s.reply 0 r = s := by
  unfold Node.reply; rw [if_pos rfl]


/-- `panic` changes nothing but `panicked` -/
theorem panic_fields (s : Node) (site : String) :
    (s.panic site).log = s.log ∧ (s.panic site).lastLogIndex = s.lastLogIndex ∧
    (s.panic site).snapIndex = s.snapIndex ∧ (s.panic site).commitIndex = s.commitIndex ∧
    (s.panic site).fsm = s.fsm ∧ (s.panic site).replies = s.replies ∧ (s.panic site).ldr = s.ldr ∧
    (s.panic site).configs = s.configs := by
  unfold Node.panic; split <;> exact ⟨rfl, rfl, rfl, rfl, rfl, rfl, rfl, rfl⟩

/-- `assert` changes nothing but `panicked` -/
theorem assert_fields (s : Node) (b : Bool) (site : String) :
    (s.assert b site).log = s.log ∧ (s.assert b site).lastLogIndex = s.lastLogIndex ∧
    (s.assert b site).snapIndex = s.snapIndex ∧ (s.assert b site).commitIndex = s.commitIndex ∧
    (s.assert b site).fsm = s.fsm ∧ (s.assert b site).replies = s.replies ∧ (s.assert b site).ldr = s.ldr ∧
    (s.assert b site).configs = s.configs := by
  unfold Node.assert; split
  · exact ⟨rfl, rfl, rfl, rfl, rfl, rfl, rfl, rfl⟩
  · exact panic_fields s site

/-- `reply` changes nothing but `replies` -/
theorem reply_fields (s : Node) (t : Nat) (r : String) :
    (s.reply t r).log = s.log ∧ (s.reply t r).lastLogIndex = s.lastLogIndex ∧
    (s.reply t r).snapIndex = s.snapIndex ∧ (s.reply t r).commitIndex = s.commitIndex ∧
    (s.reply t r).fsm = s.fsm ∧ (s.reply t r).panicked = s.panicked ∧ (s.reply t r).ldr = s.ldr ∧
    (s.reply t r).configs = s.configs := by
  unfold Node.reply; split <;> exact ⟨rfl, rfl, rfl, rfl, rfl, rfl, rfl, rfl⟩

theorem changeConfigR_fields (s : Node) (c : Config) :
    (s.changeConfigR c).log = s.log ∧ (s.changeConfigR c).lastLogIndex = s.lastLogIndex ∧
    (s.changeConfigR c).snapIndex = s.snapIndex ∧ (s.changeConfigR c).commitIndex = s.commitIndex ∧
    (s.changeConfigR c).fsm = s.fsm ∧ (s.changeConfigR c).panicked = s.panicked ∧
    (s.changeConfigR c).replies = s.replies := by
  unfold Node.changeConfigR; dsimp only; split <;> exact ⟨rfl, rfl, rfl, rfl, rfl, rfl, rfl⟩

/-- what `storage.appendEntry` does to the fields the log theorems talk about -/
theorem appendEntry_fields (s : Node) (e : Entry) :
    (∃ roll, (s.appendEntry e).log = s.log.append e roll) ∧ (s.appendEntry e).lastLogIndex = e.index ∧
    (s.appendEntry e).snapIndex = s.snapIndex ∧ (s.appendEntry e).commitIndex = s.commitIndex := by
  unfold Node.appendEntry
  dsimp only
  obtain ⟨a1, _, a3, a4, _⟩ := assert_fields s (e.index == s.lastLogIndex + 1) "assert.appendEntry"
  refine ⟨⟨_, by rw [a1]⟩, rfl, a3, a4⟩

/-- `setTerm` touches only term/vote (memory and disk), the trace and `panicked` -/
theorem setTerm_fields (s : Node) (t : Nat) :
    (s.setTerm t).log = s.log ∧ (s.setTerm t).lastLogIndex = s.lastLogIndex ∧
    (s.setTerm t).snapIndex = s.snapIndex ∧ (s.setTerm t).commitIndex = s.commitIndex ∧
    (s.setTerm t).fsm = s.fsm ∧ (s.setTerm t).replies = s.replies := by
  unfold Node.setTerm Node.storeTermVote Node.panic Node.point
  repeat' split
  all_goals exact ⟨rfl, rfl, rfl, rfl, rfl, rfl⟩

/-! ### projections untouched by the FSM goroutine's work -/

/-- `proj` is untouched by the three primitives `fsmApply` is built from -/
structure FsmFrame {α : Type} (proj : Node → α) : Prop where
  panic : ∀ s site, proj (s.panic site) = proj s
  reply : ∀ s t r, proj (s.reply t r) = proj s
  fsm : ∀ (s : Node) f, proj (s.withFsm f) = proj s

namespace FsmFrame
variable {α : Type} {proj : Node → α} (h : FsmFrame proj)
include h

theorem assert_eq (s : Node) (b : Bool) (site : String) : proj (s.assert b site) = proj s := by
  unfold Node.assert; split <;> simp [h.panic]

theorem fsmApplyLogTo_eq (s : Node) (n : Nat) : proj (s.fsmApplyLogTo n) = proj s := by
  unfold Node.fsmApplyLogTo
  split <;> try rfl
  split <;> try simp [h.panic]
  split <;> simp [h.panic, h.fsm] <;> split <;> simp [h.panic]

theorem fsmApplyItems_eq (s : Node) (qs : List QItem) : proj (s.fsmApplyItems qs) = proj s := by
  induction qs generalizing s with
  | nil => rfl
  | cons q qs ih =>
    unfold Node.fsmApplyItems
    simp only [ih, h.reply]
    repeat' split
    all_goals simp [h.fsm, h.assert_eq]

theorem fsmApply_eq (s : Node) (qs : List QItem) : proj (s.fsmApply qs) = proj s := by
  unfold Node.fsmApply
  split <;> try simp [h.panic]
  split <;> try simp [h.panic]
  simp [h.assert_eq, h.fsmApplyItems_eq, h.fsmApplyLogTo_eq]

theorem applyCommitted_eq (s : Node) : proj s.applyCommitted = proj s := h.fsmApply_eq s []

end FsmFrame

theorem fsmFrame_commitIndex : FsmFrame (·.commitIndex) :=
  ⟨fun s site => (panic_fields s site).2.2.2.1, fun s t r => (reply_fields s t r).2.2.2.1, fun _ _ => rfl⟩
theorem fsmFrame_log : FsmFrame (·.log) :=
  ⟨fun s site => (panic_fields s site).1, fun s t r => (reply_fields s t r).1, fun _ _ => rfl⟩
theorem fsmFrame_lastLogIndex : FsmFrame (·.lastLogIndex) :=
  ⟨fun s site => (panic_fields s site).2.1, fun s t r => (reply_fields s t r).2.1, fun _ _ => rfl⟩
theorem fsmFrame_ldr : FsmFrame (·.ldr) :=
  ⟨fun s site => (panic_fields s site).2.2.2.2.2.2.1, fun s t r => (reply_fields s t r).2.2.2.2.2.2.1, fun _ _ => rfl⟩
theorem fsmFrame_configs : FsmFrame (·.configs) :=
  ⟨fun s site => (panic_fields s site).2.2.2.2.2.2.2, fun s t r => (reply_fields s t r).2.2.2.2.2.2.2, fun _ _ => rfl⟩

/-! ### "only replies" -/

/-- the state with some task completions added and nothing else changed -/
def addReplies (s : Node) (rs : List Reply) : Node := { s with replies := s.replies ++ rs }

/-- the completion `reply` records: none for the null task -/
def mkReply? (t : Nat) (r : String) : List Reply := if t = 0 then [] else [{ task := t, result := r }]

theorem addReplies_nil (s : Node) : s.addReplies [] = s := by
  unfold addReplies; simp

theorem addReplies_addReplies (s : Node) (a b : List Reply) : (s.addReplies a).addReplies b = s.addReplies (a ++ b) := by
  unfold addReplies; simp [List.append_assoc]

theorem reply_eq_addReplies (s : Node) (t : Nat) (r : String) : s.reply t r = s.addReplies (mkReply? t r) := by
  unfold Node.reply mkReply?
  split
  · exact (addReplies_nil s).symm
  · rfl

/-- answering a list of (task, result) pairs one after the other -/
theorem foldl_reply_eq {β : Type} (f : β → Nat) (g : β → String) (xs : List β) (s : Node) :
    xs.foldl (fun s x => s.reply (f x) (g x)) s = s.addReplies (xs.flatMap (fun x => mkReply? (f x) (g x))) := by
  induction xs generalizing s with
  | nil => exact (addReplies_nil s).symm
  | cons x xs ih =>
    simp only [List.foldl_cons, List.flatMap_cons]
    rw [ih, reply_eq_addReplies, addReplies_addReplies]

theorem mem_flatMap_mkReply? {β : Type} (f : β → Nat) (g : β → String) (xs : List β) (x : β) (hx : x ∈ xs)
    (h0 : f x ≠ 0) : ({ task := f x, result := g x } : Reply) ∈ xs.flatMap (fun x => mkReply? (f x) (g x)) := by
  apply List.mem_flatMap.mpr
  exact ⟨x, hx, by unfold mkReply?; rw [if_neg h0]; exact List.mem_singleton.mpr rfl⟩

/-- the completions recorded for a list: exactly one per element with a non-null task, in order -/
theorem flatMap_mkReply?_tasks {β : Type} (f : β → Nat) (g : β → String) (xs : List β) :
    (xs.flatMap (fun x => mkReply? (f x) (g x))).map (·.task) = (xs.map f).filter (· ≠ 0) := by
  induction xs with
  | nil => rfl
  | cons x xs ih =>
    simp only [List.flatMap_cons, List.map_append, List.map_cons, List.filter_cons, ih]
    unfold mkReply?
    by_cases h : f x = 0 <;> simp [h]

end Node
end Raft
