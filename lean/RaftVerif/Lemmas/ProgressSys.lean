/-
Runs of the cluster-level system for the possibility proof (Props/C17Sys.lean): labelled executions `Exec` of
`SysInv.TransG` (only completed steps of open nodes and `send`; no crash), their composition, and the facts every
reachable state provides (`Facts`).
-/
import RaftVerif.Lemmas.ProgressCommit
import RaftVerif.Props.C19Sys
import RaftVerif.Lemmas.QuorumRel

namespace Raft
namespace Progress
open Node LogRel CommitRel Commit C02Sys NoPanic SysInv
open Replication (ReadFrom)
open Election (FixedV setNode setNode_same setNode_other)

/-- a label of a run: node `i` handles `op` to completion (oracles `ra`, `ord`; `src`: the sender a counted vote
response is attributed to), or the leader `i` puts the request `q` on the wire -/
inductive Lbl where
  | step (i : Nat) (op : Op) (ra : List Nat) (ord : List (List Nat)) (src : Nat)
  | send (i : Nat) (q : AppendReq)

/-- the node that acts -/
def Lbl.actor : Lbl → Nat
  | .step i _ _ _ _ => i
  | .send i _ => i

/-- the label is an election timeout of node `i` -/
def Lbl.isTimeoutOf (i : Nat) : Lbl → Bool
  | .step j .timeout _ _ _ => j == i
  | _ => false

/-- the label is an election timeout -/
def Lbl.isTimeout : Lbl → Bool
  | .step _ .timeout _ _ _ => true
  | _ => false

/-- **labelled runs**: every label is a transition of `SysInv.TransG` (a completed step of an OPEN node handling an
operation that is enabled — `Commit.Enabled`, `SysInv.EnabledG` — or a leader's `send`), and the side conditions
`SideV V`, `SideG` hold in the state reached. No crashes. -/
inductive Exec (V : List Nat) : Commit.Sys → List Lbl → Commit.Sys → Prop
  | nil (x : Commit.Sys) : Exec V x [] x
  | step {x y : Commit.Sys} {ls : List Lbl} (i : Nat) (op : Op) (ra : List Nat) (ord : List (List Nat)) (src : Nat) :
      Exec V x ls y → Commit.Enabled y i op src → EnabledG y i op → (y.node i).closed = "" →
      SideV V (stepC y i op ra ord src) → SideG (stepC y i op ra ord src) →
      Exec V x (ls ++ [.step i op ra ord src]) (stepC y i op ra ord src)
  | send {x y : Commit.Sys} {ls : List Lbl} (i : Nat) (q : AppendReq) :
      Exec V x ls y → i ≠ 0 → (y.node i).role = .leader → ReadFrom (y.node i) q →
      q.ldrCommitIndex ≤ (y.node i).commitIndex → Exec V x (ls ++ [.send i q]) (sendC y q)

theorem Exec.trans {V : List Nat} {x y z : Commit.Sys} {l1 l2 : List Lbl} (h1 : Exec V x l1 y)
    (h2 : Exec V y l2 z) : Exec V x (l1 ++ l2) z := by
  induction h2 with
  | nil => rw [List.append_nil]; exact h1
  | step i op ra ord src _ he heG ho hs hg ih =>
    rw [← List.append_assoc]; exact .step i op ra ord src ih he heG ho hs hg
  | send i q _ hi hl hr hc ih =>
    rw [← List.append_assoc]; exact .send i q ih hi hl hr hc

/-- a labelled run is a run of the system (`SysInv.RunG`) -/
theorem Exec.runG {V : List Nat} {x y : Commit.Sys} {ls : List Lbl} (hV : V.Nodup) (hx : ReachableG V x)
    (h : Exec V x ls y) : RunG V x y := by
  induction h with
  | nil => exact .refl
  | step i op ra ord src _ he heG ho hs hg ih => exact .next _ _ ih (.step i op ra ord src he heG ho) hs hg
  | send i q _ hi hl hr hc ih =>
    have hy := run_reachableG hx ih
    refine .next _ _ ih (.send i q hi hl hr hc) ?_ ?_
    · exact (inv_reachable hV (reachableG_V hy)).2
    · exact fun j => reachableG_side hy j

theorem Exec.reachable {V : List Nat} {x y : Commit.Sys} {ls : List Lbl} (hV : V.Nodup) (hx : ReachableG V x)
    (h : Exec V x ls y) : ReachableG V y := run_reachableG hx (h.runG hV hx)

/-! ### one completed step -/

section one
variable {V : List Nat} {y : Commit.Sys}

/-- the side conditions after a completed step that keeps the node's latest configuration -/
theorem side_step (hV : V.Nodup) (hy : ReachableG V y) {i : Nat} {op : Op} {src : Nat} (ra : List Nat)
    (ord : List (List Nat)) (he : Commit.Enabled y i op src) (heG : EnabledG y i op)
    (ho : (y.node i).closed = "")
    (hcfg : ((y.node i).step op ra ord).configs.latest = (y.node i).configs.latest) :
    SideV V (stepC y i op ra ord src) ∧ SideG (stepC y i op ra ord src) := by
  obtain ⟨hI, hS⟩ := inv_reachable hV (reachableG_V hy)
  have sc : SC V y i op ra ord src := ⟨hV, hI, hS, he⟩
  have hgood := (C19Sys.reqok_in_sys_partial V hV y hy i op src he heG ho ra ord).2.2.2
  have ei : (stepC y i op ra ord src).rp.el.node i = (y.node i).step op ra ord := sc.node_i
  have ej : ∀ j, j ≠ i → (stepC y i op ra ord src).rp.el.node j = y.node j := fun j hj => sc.node_j hj
  refine ⟨⟨fun j => ?_, fun j => ?_⟩, fun j => ?_⟩
  · by_cases hj : j = i
    · subst hj
      rw [ei]
      unfold Configs.isBootstrapped
      rw [hcfg]; exact hS.1 j
    · rw [ej j hj]; exact hS.1 j
  · by_cases hj : j = i
    · subst hj
      show ((stepC y j op ra ord src).rp.el.node j).configs.latest.isStable = true
      rw [ei, hcfg]; exact hS.2 j
    · show ((stepC y i op ra ord src).rp.el.node j).configs.latest.isStable = true
      rw [ej j hj]; exact hS.2 j
  · by_cases hj : j = i
    · subst hj
      show 1 ≤ ((stepC y j op ra ord src).rp.el.node j).retain
      rw [ei]; exact hgood.glob.retain
    · show 1 ≤ ((stepC y i op ra ord src).rp.el.node j).retain
      rw [ej j hj]; exact reachableG_side hy j

/-- a completed step that is not an append request, as a run of one label -/
theorem exec_step (hV : V.Nodup) (hy : ReachableG V y) {i : Nat} {op : Op} {src : Nat} (ra : List Nat)
    (ord : List (List Nat)) (he : Commit.Enabled y i op src) (heG : EnabledG y i op)
    (ho : (y.node i).closed = "") (happ : ∀ q, op ≠ .append q) :
    Exec V y [.step i op ra ord src] (stepC y i op ra ord src) := by
  obtain ⟨hI, hS⟩ := inv_reachable hV (reachableG_V hy)
  have sc : SC V y i op ra ord src := ⟨hV, hI, hS, he⟩
  obtain ⟨h1, h2⟩ := side_step hV hy ra ord he heG ho (sc.nst happ).cfg
  exact .step i op ra ord src (.nil y) he heG ho h1 h2

/-- a completed step handling an append request that keeps the latest configuration, as a run of one label -/
theorem exec_append (hV : V.Nodup) (hy : ReachableG V y) {i : Nat} {q : AppendReq} {src : Nat} (ra : List Nat)
    (ord : List (List Nat)) (he : Commit.Enabled y i (.append q) src) (heG : EnabledG y i (.append q))
    (ho : (y.node i).closed = "")
    (hcfg : ((y.node i).step (.append q) ra ord).configs.latest = (y.node i).configs.latest) :
    Exec V y [.step i (.append q) ra ord src] (stepC y i (.append q) ra ord src) := by
  obtain ⟨h1, h2⟩ := side_step hV hy ra ord he heG ho hcfg
  exact .step i (.append q) ra ord src (.nil y) he heG ho h1 h2

theorem stepC_node_i (i : Nat) (op : Op) (ra : List Nat) (ord : List (List Nat)) (src : Nat) :
    (stepC y i op ra ord src).node i = (y.node i).step op ra ord := by
  show setNode y.rp.el.node i _ i = _
  rw [setNode_same]

theorem stepC_node_j (i : Nat) (op : Op) (ra : List Nat) (ord : List (List Nat)) (src : Nat) {j : Nat} (hj : j ≠ i) :
    (stepC y i op ra ord src).node j = y.node j := by
  show setNode y.rp.el.node i _ j = _
  rw [setNode_other _ _ _ _ hj]

end one

/-! ### what every reachable state provides -/

/-- facts about node `i` of a reachable state -/
structure Facts (V : List Nat) (x : Commit.Sys) (i : Nat) : Prop where
  nid : (x.node i).nid = i
  nwf : NWF (x.node i)
  lwf : C06.LogWF (x.node i).log
  wf : C05.VoteWF (x.node i)
  good : Good true (x.node i)
  boot : (x.node i).configs.isBootstrapped = true
  voters : (x.node i).configs.latest.voters = V
  stable : (x.node i).configs.latest.isStable = true
  latest1 : (x.node i).configs.latest.index = 1
  lastPos : 1 ≤ (x.node i).log.entries.length
  termLe : ∀ e ∈ (x.node i).log.entries, e.term ≤ (x.node i).term
  candPos : (x.node i).role = .candidate → (x.node i).term ≠ 0

theorem facts {V : List Nat} (hV : V.Nodup) {x : Commit.Sys} (hx : ReachableG V x) (i : Nat) : Facts V x i := by
  obtain ⟨hI, hS⟩ := inv_reachable hV (reachableG_V hx)
  have hG := ginv_reachable hV hx
  refine ⟨(hI.rp.el.ids i).1, nwf hI i, hI.node.lwf i, (hI.rp.el.ids i).2, hG.good i, (hS.1 i).1, (hS.1 i).2,
    hS.2 i, latest_one hS hG i, ?_, hI.node.termLe i, fun hc => (hI.rp.el.cand i hc).term_pos⟩
  have := last_pos hS hG i
  rw [(nwf hI i).last] at this
  exact this

/-- a member of `V` is a voter of a node's latest configuration when the member ids of that configuration are
distinct (in Go the members are a map keyed by id) -/
theorem isVoter_of_mem {V : List Nat} {x : Commit.Sys} {i : Nat} (f : Facts V x i)
    (hids : (x.node i).configs.latest.ids.Nodup) {j : Nat} (hj : j ∈ V) :
    (x.node i).configs.latest.isVoter j = true :=
  (QuorumRel.mem_voters_iff _ hids j).mp (by rw [f.voters]; exact hj)

end Progress
end Raft
