/-
Node-level facts for the cluster-level membership proofs (Sys/Member.lean, Props/C08Sys.lean).

* `cand_configs`: a node that is CANDIDATE after a step (any operation of the no-snapshot model, any oracle) has the
  configurations it had before the step — a candidate never touches `configs`: the handlers that write them
  (`onAppendEntries`, the leader block) leave the node follower or leader. Hence the configuration whose voters a
  candidate asked for their vote (`candidate.startElection`: `configs.latest` at that moment) is still its latest
  configuration when it counts the responses.
-/
import RaftVerif.Lemmas.LogRel
import RaftVerif.Props.C01Sys

namespace Raft
namespace MemberRel
open Node LogRel

theorem setVotedFor_configs (s : Node) (t c : Nat) : (s.setVotedFor t c).configs = s.configs :=
  (setVotedFor_key s t c).2.2.2.1

theorem setTerm_configs (s : Node) (t : Nat) : (s.setTerm t).configs = s.configs :=
  (setTerm_key s t).2.2.2.1

theorem onVoteRequest_configs (s : Node) (q : VoteReq) : (s.onVoteRequest q).configs = s.configs := by
  unfold Node.onVoteRequest
  split
  · rfl
  · split
    · rfl
    · extract_lets vf tm s1
      have h1 : s1.configs = s.configs := by unfold s1; split <;> rfl
      split
      · show (s1.setVotedFor tm vf).configs = _
        rw [setVotedFor_configs]; exact h1
      · split
        · show (s1.setVotedFor tm vf).configs = _
          rw [setVotedFor_configs]; exact h1
        · show (s1.setVotedFor tm q.src).configs = _
          rw [setVotedFor_configs]; exact h1

theorem onTimeoutNow_configs (s : Node) : s.onTimeoutNow.configs = s.configs := by
  unfold Node.onTimeoutNow
  split <;> rfl

theorem followerTimeout_configs (s : Node) : s.followerTimeout.configs = s.configs := by
  unfold Node.followerTimeout
  dsimp only
  split <;> rfl

theorem rejectEntries_configs (s : Node) (b : List QItem) : (s.rejectEntries b).configs = s.configs := by
  induction b generalizing s with
  | nil => rfl
  | cons q qs ih =>
    unfold Node.rejectEntries
    dsimp only
    rw [ih]
    split <;> exact (SameKey.reply _ _ _).configs

theorem onVoteResult_configs (s : Node) (e : Bool) (t r : Nat) : (s.onVoteResult e t r).configs = s.configs := by
  unfold Node.onVoteResult
  split
  · rfl
  · split
    · show ((s.setRole .follower).setTerm t).configs = _
      rw [setTerm_configs]; rfl
    · split
      · dsimp only
        split <;> rfl
      · rfl

theorem onTakeSnapshot_configs (s : Node) (t th : Nat) : (s.onTakeSnapshot t th).configs = s.configs := by
  unfold Node.onTakeSnapshot
  split
  · exact (SameKey.reply _ _ _).configs
  · rfl

/-- in a node that is not candidate, a result of a leader handler (`Down`) is not candidate either -/
theorem down_not_cand {b h : Node} (hd : Down b h) (hb : b.role ≠ .candidate) : h.role ≠ .candidate := by
  rcases hd.2.2 with ⟨a, _, _⟩ | a
  · rw [a]; exact hb
  · rw [a]; decide

/-- **every case of `handle`** (no-snapshot model, bootstrapped node): a handler that returns a candidate has not
touched `configs` -/
theorem handle_cand_configs (b : Node) (op : Op) (hboot : b.configs.isBootstrapped = true) (hok : OpOK op)
    (hc : (b.handle op).role = .candidate) : (b.handle op).configs = b.configs := by
  have G := down_closed b
  have D0 := Down.refl b
  -- a leader handler never returns a candidate
  have ldr : ∀ {x : Node}, b.role = .leader → Down b x → x.role = .candidate → x.configs = b.configs :=
    fun hr hd hx => absurd hx (down_not_cand hd (by rw [hr]; decide))
  cases op <;> unfold Node.handle at hc ⊢ <;> dsimp only at hc ⊢
  case vote q =>
    rw [(SameKey.rpcDone _ _ _).configs]; exact onVoteRequest_configs b q
  case append q =>
    rw [(SameKey.rpcDone _ _ _).configs]
    by_cases hq : q.term < b.term
    · rw [C04.stale_append_refused b q hq]; rfl
    · rw [(SameKey.rpcDone _ _ _).role, onAppendEntries_role b q hq] at hc
      cases hc
  case install q => exact absurd hok (by simp [OpOK])
  case timeoutNow =>
    rw [(SameKey.rpcDone _ _ _).configs]; exact onTimeoutNow_configs b
  case identity a c d => rfl
  case disconnected n => split <;> rfl
  case timeout =>
    cases hr : b.role <;> simp only [hr] at hc ⊢
    · exact followerTimeout_configs b
    · exact (startElection_spec b).2.2.2.1
    · exact ldr hr (G.checkQuorum_g _ D0) hc
  case newEntries batch =>
    split
    · rename_i hr
      rw [if_pos hr] at hc
      exact ldr hr (G.storeEntry_g _ _ _ D0) hc
    · exact rejectEntries_configs b batch
  case changeConfig t c =>
    split
    · rename_i hr
      rw [if_pos hr] at hc
      exact ldr hr (G.onChangeConfig_g _ _ _ D0) hc
    · unfold Node.bootstrap
      rw [if_pos hboot]
      exact (SameKey.reply _ _ _).configs
  case takeSnapshot t th => exact onTakeSnapshot_configs b t th
  case snapRun => exact absurd hok (by simp [OpOK])
  case snapTaken => exact absurd hok (by simp [OpOK])
  case waitStable t =>
    split
    · rename_i hr
      rw [if_pos hr] at hc
      exact ldr hr (G.onWaitForStable_g _ _ D0) hc
    · exact (SameKey.reply _ _ _).configs
  case transfer t g =>
    split
    · rename_i hr
      rw [if_pos hr] at hc
      exact ldr hr (G.onTransfer_g _ _ _ D0) hc
    · exact (SameKey.reply _ _ _).configs
  case voteResult e t r =>
    split
    · exact onVoteResult_configs b e t r
    · rfl
  case replUpdates us =>
    split
    · rename_i hr
      rw [if_pos hr] at hc
      exact ldr hr (G.checkReplUpdates_g _ _ D0) hc
    · rfl
  case transferTimeout =>
    split
    · rename_i hr
      rw [if_pos hr] at hc
      exact ldr hr.1 (G.replyTransfer_g _ _ D0) hc
    · rfl
  case timeoutNowResult a c d =>
    split
    · rename_i hr
      rw [if_pos hr] at hc
      exact ldr hr.1 (G.onTimeoutNowResult_g _ _ _ _ D0) hc
    · rfl
  case newTermTimeout =>
    split
    · rename_i hr
      rw [if_pos hr] at hc
      exact ldr hr.1 (G.tryTransfer_g _ (G.ldr _ _ D0)) hc
    · rfl
  case shutdown => exact absurd hok (by simp [OpOK])

/-- the role transitions after a handler: a node that ends as candidate has the configurations the handler
returned -/
theorem settle_cand_configs (n : Nat) (h : Node) (cur : Role) (hc : (settle (n + 3) h cur).role = .candidate) :
    h.role = .candidate ∧ (settle (n + 3) h cur).configs = h.configs := by
  by_cases hne : h.role = cur
  · have e : settle (n + 3) h cur = h := by unfold settle; rw [if_pos hne]
    rw [e] at hc ⊢
    exact ⟨hc, rfl⟩
  · cases settle_shape n h cur hne with
    | follower r e =>
      rw [e, (SameKey.releaseRole _ _).role, r] at hc; cases hc
    | leader x r _ e =>
      rcases e with ⟨a, e⟩ | ⟨a, e⟩
      · rw [e, a] at hc; cases hc
      · rw [e, (SameKey.releaseRole _ _).role, a] at hc; cases hc
    | cand r e _ =>
      refine ⟨r, ?_⟩
      rw [e, (startElection_spec _).2.2.2.1, (SameKey.releaseRole _ _).configs]
    | candLeader x r _ _ e =>
      rcases e with ⟨a, e⟩ | ⟨a, e⟩
      · rw [e, a] at hc; cases hc
      · rw [e, (SameKey.releaseRole _ _).role, a] at hc; cases hc

/-- **A candidate never touches its configurations.** For every operation of the no-snapshot model (`LogRel.OpOK`),
every oracle and input: if the (bootstrapped) node is candidate after the step — whether it was candidate before,
or started its candidacy in this step — its `configs` are those it had before the step. -/
theorem cand_configs (s : Node) (op : Op) (ra : List Nat) (ord : List (List Nat))
    (hboot : s.configs.isBootstrapped = true) (hok : OpOK op) (hc : (s.step op ra ord).role = .candidate) :
    (s.step op ra ord).configs = s.configs := by
  have hne : ∀ (x : Node), op ≠ .shutdown → s.step op ra ord = settle 6 ((s.begin ra ord).handle op) (s.begin ra ord).role := by
    intro _ hs
    unfold Node.step
    dsimp only
    split
    · exact absurd rfl hs
    · rfl
  have hsd : op ≠ .shutdown := by
    intro e; subst e; exact absurd hok (by simp [OpOK])
  rw [hne s hsd] at hc ⊢
  obtain ⟨h1, h2⟩ := settle_cand_configs 3 _ _ hc
  rw [h2]
  exact handle_cand_configs (s.begin ra ord) op hboot hok h1

/-- EXAMPLE: the bootstrapped follower `C01Sys.exNode 1` (voters 1, 2, 3) times out; it is candidate afterwards and its
configurations are unchanged -/
example : ((C01Sys.exNode 1).step .timeout [] []).role = .candidate ∧
    ((C01Sys.exNode 1).step .timeout [] []).configs = (C01Sys.exNode 1).configs :=
  ⟨by decide, cand_configs (C01Sys.exNode 1) .timeout [] [] rfl trivial (by decide)⟩

end MemberRel
end Raft

#print axioms Raft.MemberRel.cand_configs
