/-
Un-compaction (Lemmas/SnapRelU*.lean) for logs that start EXACTLY at the snapshot index — the situation after a snapshot
was installed (stage 3, Sys/Snap3.lean).

* append requests (`append_step_U2`): Lemmas/SnapRelU3.lean needs `log.prev < snapIndex` (`AOK`) so that `RemoveGTE`
  never empties the compacted log.  Here `log.prev ≤ snapIndex` suffices (`AOK2`), given that the request's entries have
  increasing indexes and that no entry of the request makes the handler cut the log at `log.prev + 1` (`NoCutE`: the
  entry with that index, if the request has one, is beyond the log or present in it).
* restart from a disk whose log is EMPTY and starts at the snapshot index (`restart_U_empty`): `openStorage` takes the
  coordinates of the last entry from the snapshot; on the un-compacted disk it reads them from the last compacted-away
  entry — the same, when that entry has the snapshot's term.
-/
import RaftVerif.Lemmas.SnapRelU4

namespace Raft
namespace SnapInstU
open Node SnapRelP SnapRel SnapRelU SnapSim
variable {β : List Entry}

/-- the first index of the log is at or below the snapshot index, and it is a segment boundary -/
def AOK2 (s : Node) : Prop := s.log.prev ≤ s.snapIndex ∧ s.log.prev ∈ s.log.segs

/-- the entry does not make the handler cut the log directly behind its first index -/
def NoCutE (s : Node) (ne : Entry) : Prop :=
  ne.index = s.log.prev + 1 → s.log.prev = 0 ∨ s.lastLogIndex < ne.index ∨ s.entryTerm? ne.index = some ne.term

theorem AOK2_congr {s s' : Node} (h : AOK2 s) (e1 : s'.log.prev = s.log.prev) (e2 : s'.snapIndex = s.snapIndex)
    (e3 : s.log.prev ∈ s.log.segs → s.log.prev ∈ s'.log.segs) : AOK2 s' := by
  unfold AOK2 at h ⊢
  rw [e1, e2]
  exact ⟨h.1, e3 h.2⟩

theorem U_resolveConflict2 (s : Node) (ne : Entry) (pt : Nat) (ha : AOK2 s) (hi : s.snapIndex < ne.index)
    (hcut : ne.index ≤ s.lastLogIndex → s.log.prev = 0 ∨ s.log.prev < ne.index - 1) :
    (U β s).resolveConflict ne pt = U β (s.resolveConflict ne pt) := by
  have hlt : s.log.prev < ne.index := by have := ha.1; omega
  unfold Node.resolveConflict
  rw [U_entryTerm? s ne.index hlt]
  show (if ne.index ≤ s.lastLogIndex then _ else _) = _
  split
  · rename_i hle
    cases s.entryTerm? ne.index with
    | none => exact U_panic s _
    | some t =>
      dsimp only
      rw [U_removeGTE s ne.index pt ((hcut hle).imp id (fun h => ⟨h, ha.2⟩))]
      show (if ne.index ≤ (s.removeGTE ne.index pt).configs.latest.index then _ else _) = _
      split <;> rfl
  · rfl

theorem resolveConflict_prev (s : Node) (ne : Entry) (pt : Nat) : (s.resolveConflict ne pt).log.prev = s.log.prev := by
  unfold Node.resolveConflict
  split
  · split
    · rw [lobs_panic]
    · dsimp only
      split <;> rfl
  · rfl

theorem appendEntry_prev (s : Node) (e : Entry) : (s.appendEntry e).log.prev = s.log.prev := by
  rw [appendEntry_eq]
  have h1 : (s.assert (e.index == s.lastLogIndex + 1) "assert.appendEntry").log.prev = s.log.prev := by
    unfold Node.assert
    split
    · rfl
    · rw [lobs_panic]
  rw [← h1]
  unfold appendRaw
  show (NLog.append _ e _).prev = _
  unfold NLog.append; split <;> rfl

theorem AOK2_resolveConflict (s : Node) (ne : Entry) (pt : Nat) (ha : AOK2 s) (_hi : s.snapIndex < ne.index)
    (hcut : ne.index ≤ s.lastLogIndex → s.log.prev = 0 ∨ s.log.prev < ne.index - 1) :
    AOK2 (s.resolveConflict ne pt) := by
  unfold Node.resolveConflict
  split
  · rename_i hle
    split
    · exact AOK2_congr ha (by rw [lobs_panic]) (snapIndex_panic _ _) (fun h => by rw [lobs_panic]; exact h)
    · dsimp only
      have key : AOK2 (s.removeGTE ne.index pt) := by
        refine AOK2_congr ha rfl rfl (fun h => ?_)
        show s.log.prev ∈ (s.log.removeGTE ne.index).segs
        unfold NLog.removeGTE
        dsimp only
        rcases hcut hle with h0 | h1
        · by_cases hk : (List.filter (fun x => decide (x < ne.index - 1)) s.log.segs).isEmpty = true
          · rw [if_pos hk]
            have := List.isEmpty_iff.mp hk
            by_cases h2 : s.log.prev < ne.index - 1
            · have hm : s.log.prev ∈ List.filter (fun x => decide (x < ne.index - 1)) s.log.segs :=
                List.mem_filter.mpr ⟨h, by simpa using h2⟩
              rw [this] at hm; cases hm
            · have : ne.index - 1 = s.log.prev := by omega
              rw [this]; exact List.mem_singleton.mpr rfl
          · rw [if_neg hk]
            by_cases h2 : s.log.prev < ne.index - 1
            · exact List.mem_filter.mpr ⟨h, by simpa using h2⟩
            · exfalso
              have h3 : ne.index - 1 = 0 := by omega
              rw [h3] at hk
              apply hk
              rw [List.isEmpty_iff]
              apply List.filter_eq_nil_iff.mpr
              intro a _
              simp
        · have hm : s.log.prev ∈ List.filter (fun x => decide (x < ne.index - 1)) s.log.segs :=
            List.mem_filter.mpr ⟨h, by simpa using h1⟩
          have hk : ¬ (List.filter (fun x => decide (x < ne.index - 1)) s.log.segs).isEmpty = true := by
            intro hk; rw [List.isEmpty_iff.mp hk] at hm; cases hm
          rw [if_neg hk]; exact hm
      split
      · exact AOK2_congr key rfl rfl id
      · exact key
  · exact ha

theorem AOK2_appendEntry (s : Node) (e : Entry) (ha : AOK2 s) : AOK2 (s.appendEntry e) := by
  rw [appendEntry_eq]
  have h1 : AOK2 (s.assert (e.index == s.lastLogIndex + 1) "assert.appendEntry") := by
    unfold Node.assert
    split
    · exact ha
    · exact AOK2_congr ha (by rw [lobs_panic]) (snapIndex_panic _ _) (fun h => by rw [lobs_panic]; exact h)
  generalize s.assert (e.index == s.lastLogIndex + 1) "assert.appendEntry" = s1 at h1
  unfold appendRaw
  refine AOK2_congr h1 ?_ rfl (fun h => ?_)
  · show (s1.log.append e _).prev = _
    unfold NLog.append; split <;> rfl
  · show s1.log.prev ∈ (s1.log.append e _).segs
    unfold NLog.append
    split
    · exact List.mem_append_left _ h
    · exact h

theorem AOK2_changeConfigR (s : Node) (c : Config) (ha : AOK2 s) : AOK2 (s.changeConfigR c) := by
  unfold Node.changeConfigR
  dsimp only
  split <;> exact AOK2_congr ha rfl rfl id

theorem changeConfigR_prev (s : Node) (c : Config) : (s.changeConfigR c).log.prev = s.log.prev := by
  unfold Node.changeConfigR
  dsimp only
  split <;> rfl

/-- **the entry-consuming loop** on a log that starts at or below the snapshot index -/
theorem appendLoop_U2 (es : List Entry) : ∀ (st : AppLoop), AOK2 st.s →
    es.Pairwise (fun a b => a.index < b.index) → (∀ ne ∈ es, NoCutE st.s ne) →
    appendLoop (Ul β st) es = Ul β (appendLoop st es) := by
  induction es with
  | nil => intro st _ _ _; rfl
  | cons ne rest ih =>
    intro st ha hsort hnc
    have hrest : rest.Pairwise (fun a b => a.index < b.index) := (List.pairwise_cons.mp hsort).2
    have hgt : ∀ b ∈ rest, ne.index < b.index := (List.pairwise_cons.mp hsort).1
    have hnc' : ∀ b ∈ rest, NoCutE st.s b := fun b hb => hnc b (List.mem_cons_of_mem _ hb)
    unfold appendLoop
    by_cases herr : st.err = true
    · rw [if_pos herr, if_pos (show (Ul β st).err = true from herr)]
    · rw [if_neg herr, if_neg (show ¬ (Ul β st).err = true from herr)]
      dsimp only
      by_cases hsn : ne.index ≤ st.s.snapIndex
      · rw [if_pos hsn, if_pos (show ne.index ≤ (Ul β st).s.snapIndex from hsn)]
        exact ih { st with index := ne.index, term := ne.term } ha hrest hnc'
      · rw [if_neg hsn, if_neg (show ¬ ne.index ≤ (Ul β st).s.snapIndex from hsn)]
        have hlt : st.s.log.prev < ne.index := by have := ha.1; omega
        have et : (Ul β st).s.entryTerm? ne.index = st.s.entryTerm? ne.index := U_entryTerm? st.s ne.index hlt
        rw [et]
        show (if (decide (ne.index ≤ st.s.lastLogIndex) && st.s.entryTerm? ne.index == some ne.term) = true then _ else _) = _
        split
        · exact ih { st with index := ne.index, term := ne.term } ha hrest hnc'
        · rename_i hpres
          have hcut : ne.index ≤ st.s.lastLogIndex → st.s.log.prev = 0 ∨ st.s.log.prev < ne.index - 1 := by
            intro hle
            by_cases h1 : ne.index = st.s.log.prev + 1
            · rcases hnc ne (List.mem_cons_self ..) h1 with h | h | h
              · exact Or.inl h
              · omega
              · exfalso
                apply hpres
                rw [h]
                simp [hle]
            · right; omega
          have e1 : ((Ul β st).s.resolveConflict ne (Ul β st).term).appendEntry ne =
              U β ((st.s.resolveConflict ne st.term).appendEntry ne) := by
            show ((U β st.s).resolveConflict ne st.term).appendEntry ne = _
            rw [U_resolveConflict2 _ _ _ ha (by omega) hcut, U_appendEntry]
          show (if ne.typ = etConfig then _ else _) = _
          rw [e1]
          have ha2 : AOK2 ((st.s.resolveConflict ne st.term).appendEntry ne) :=
            AOK2_appendEntry _ _ (AOK2_resolveConflict _ _ _ ha (by omega) hcut)
          have hp2 : ((st.s.resolveConflict ne st.term).appendEntry ne).log.prev = st.s.log.prev := by
            rw [appendEntry_prev, resolveConflict_prev]
          have hvac : ∀ (s' : Node), s'.log.prev = st.s.log.prev → ∀ b ∈ rest, NoCutE s' b := by
            intro s' hs' b hb hbi
            have := hgt b hb
            rw [hs'] at hbi
            omega
          split
          · split
            · rename_i c hc
              rw [U_changeConfigR]
              exact ih { st with index := ne.index, term := ne.term,
                                 s := ((st.s.resolveConflict ne st.term).appendEntry ne).changeConfigR c, syncLog := true }
                (AOK2_changeConfigR _ _ ha2) hrest (hvac _ (by show (Node.changeConfigR _ c).log.prev = _; rw [changeConfigR_prev, hp2]))
            · rfl
          · exact ih { st with index := ne.index, term := ne.term,
                               s := (st.s.resolveConflict ne st.term).appendEntry ne, syncLog := true } ha2 hrest
              (hvac _ hp2)

theorem checkBody_U2 (s : Node) (q : AppendReq) (ha : AOK2 s) (hq : s.snapIndex < q.prevLogIndex)
    (hp : (checkBody s q).panicked = none) : checkBody (U β s) q = U β (checkBody s q) := by
  have hlt : s.log.prev < q.prevLogIndex := by have := ha.1; omega
  unfold checkBody at hp ⊢
  rw [U_entryTerm? s _ hlt]
  dsimp +instances only [uproj] at hp ⊢
  by_cases h1 : q.prevLogIndex > s.lastLogIndex
  · simp only [if_pos h1]; rfl
  · simp only [if_neg h1] at hp ⊢
    by_cases h2 : q.prevLogIndex = s.lastLogIndex
    · simp only [if_pos h2] at hp ⊢
      ucomm hp [U_entryTerm? s _ hlt]
    · simp only [if_neg h2] at hp ⊢
      cases het : s.entryTerm? q.prevLogIndex with
      | none =>
        simp only [het] at hp
        have : (s.panic "bug.mustGetEntry").panicked = none := by npk_core hp
        exact absurd this (panic_ne_none _ _)
      | some t =>
        simp only [het] at hp ⊢
        ucomm hp [U_entryTerm? s _ hlt, het]

theorem appendCheck_U2 (s : Node) (q : AppendReq) (ha : AOK2 s) (hp : (s.appendCheck q).panicked = none) :
    (U β s).appendCheck q = U β (s.appendCheck q) := by
  rw [appendCheck_eq] at hp ⊢
  rw [appendCheck_eq]
  show (if q.prevLogIndex > s.snapIndex then _ else _) = _
  split
  · rename_i h
    rw [if_pos h] at hp
    exact checkBody_U2 s q ha h hp
  · rfl

theorem appendTail_U2 (q : AppendReq) (s : Node) (ha : AOK2 s)
    (hsort : q.entries.Pairwise (fun a b => a.index < b.index)) (hnc : ∀ ne ∈ q.entries, NoCutE s ne)
    (hp : (appendTail q s).panicked = none) :
    appendTail q (U β s) = U β (appendTail q s) := by
  unfold appendTail at hp ⊢
  by_cases hr : s.result ≠ 0
  · rw [if_pos hr, if_pos (show (U β s).result ≠ 0 from hr)]
  · rw [if_neg hr] at hp
    rw [if_neg hr, if_neg (show ¬ (U β s).result ≠ 0 from hr)]
    have hl' : appendLoop { s := U β s, index := q.prevLogIndex, term := q.prevLogTerm } q.entries =
        Ul β (appendLoop { s := s, index := q.prevLogIndex, term := q.prevLogTerm } q.entries) :=
      appendLoop_U2 q.entries { s := s, index := q.prevLogIndex, term := q.prevLogTerm } ha hsort hnc
    rw [hl']
    generalize appendLoop { s := s, index := q.prevLogIndex, term := q.prevLogTerm } q.entries = st at hp ⊢
    show (let s := U β st.s
          let s := if (!q.entries.isEmpty) = true ∧ st.syncLog = true then
              let s := s.commitLog s.lastLogIndex
              if s.canCommit q st.index st.term = true then (s.setCommitIndexR st.index).1.applyCommitted else s
            else s
          s.ret (if st.err = true then rUnexpectedErr else rSuccess)) = _
    dsimp only at hp ⊢
    ucomm hp

theorem NoCutE_congr {s s' : Node} {ne : Entry} (h : NoCutE s ne) (e1 : s'.log = s.log)
    (e2 : s'.lastLogIndex = s.lastLogIndex) : NoCutE s' ne := by
  unfold NoCutE Node.entryTerm? at h ⊢
  rw [e1, e2]
  exact h

theorem onAppendEntries_U2 (s : Node) (q : AppendReq) (ha : AOK2 s)
    (hq : ¬ q.term < s.term → q.entries.Pairwise (fun a b => a.index < b.index) ∧ ∀ ne ∈ q.entries, NoCutE s ne)
    (hp : (s.onAppendEntries q).panicked = none) :
    (U β s).onAppendEntries q = U β (s.onAppendEntries q) := by
  rw [onAppendEntries_eq] at hp ⊢
  rw [onAppendEntries_eq]
  by_cases hst : q.term < s.term
  · rw [if_pos hst, if_pos (show q.term < (U β s).term from hst)]; rfl
  · rw [if_neg hst] at hp
    rw [if_neg hst, if_neg (show ¬ q.term < (U β s).term from hst)]
    obtain ⟨hsort, hnc⟩ := hq hst
    have ea := aobs_appendHead s q
    unfold aobs at ea
    simp only [Prod.mk.injEq] at ea
    have h2 : AOK2 (appendHead q s) := AOK2_congr ha (by rw [ea.1]) ea.2.2.2.2 (fun h => by rw [ea.1]; exact h)
    have eh : appendHead q (U β s) = U β (appendHead q s) := by
      unfold appendHead
      have hp' : True := trivial
      ucomm hp'
    have hc : ((appendHead q s).appendCheck q).panicked = none := by
      exact npk (k := fun x => appendTail q x) (fun π x => P_appendTail q x) hp
    rw [eh, appendCheck_U2 _ q h2 hc]
    obtain ⟨e, _⟩ := CommitRel.appendCheck_fobs (appendHead q s) q
    unfold CommitRel.fobs LogRel.Core at e
    simp only [Prod.mk.injEq] at e
    refine appendTail_U2 q _ (AOK2_congr h2 (by rw [e.1.1]) e.1.2.2.2.1 (fun h => by rw [e.1.1]; exact h)) hsort
      (fun ne hne => ?_) hp
    exact NoCutE_congr (hnc ne hne) (e.1.1.trans ea.1) (e.1.2.1.trans ea.2.1)

/-- **an append request is handled alike on the un-compacted log**, also when the log starts exactly at the snapshot
index — if the request does not cut the log directly behind its first index -/
theorem append_step_U2 (s : Node) (q : AppendReq) (ra : List Nat) (ord : List (List Nat)) (ha : AOK2 s)
    (hq : ¬ q.term < s.term → q.entries.Pairwise (fun a b => a.index < b.index) ∧ ∀ ne ∈ q.entries, NoCutE s ne)
    (hp : (s.step (.append q) ra ord).panicked = none) :
    (U β s).step (.append q) ra ord = U β (s.step (.append q) ra ord) := by
  have hp' : (settle 6 (((s.begin ra ord).onAppendEntries q).rpcDone false true) (s.begin ra ord).role).panicked = none := hp
  show settle 6 ((((U β s).begin ra ord).onAppendEntries q).rpcDone false true) ((U β s).begin ra ord).role =
    U β (settle 6 (((s.begin ra ord).onAppendEntries q).rpcDone false true) (s.begin ra ord).role)
  have h1 : ((s.begin ra ord).onAppendEntries q).panicked = none := by npk_core hp'
  have hb : AOK2 (s.begin ra ord) := ha
  have hqb : ¬ q.term < (s.begin ra ord).term → q.entries.Pairwise (fun a b => a.index < b.index) ∧
      ∀ ne ∈ q.entries, NoCutE (s.begin ra ord) ne := hq
  rw [U_begin, onAppendEntries_U2 _ q hb hqb h1, U_rpcDone, U_role, U_settle _ _ _ hp']

/-! ### restart from an empty log that starts at the snapshot index -/

theorem scan_stop (log : NLog) (sn fuel i : Nat) (latest : Option Config) (h : i ≤ sn) :
    scanConfigs log sn fuel i latest = (latest, none, false) := by
  cases fuel with
  | zero => rfl
  | succ n => unfold scanConfigs; rw [if_pos h]

theorem restartNode_U_empty (d : Durable) (retain : Nat) (sor : Bool) (he : d.log.entries = [])
    (hp : d.log.prev = (headSnap d).index) (h0 : 0 < d.log.prev)
    (hnr : staleLog d = false) (hnu : staleLog { d with log := uncLog β d.log } = false)
    (hlt : (((pad β d.log.prev).getLast?).map (·.term)).getD 0 = (headSnap d).term) :
    restartNode { d with log := uncLog β d.log } retain sor = U β (restartNode d retain sor) := by
  have hc : ¬ d.log.count > 0 := by unfold NLog.count; rw [he]; simp
  have hc' : (uncLog β d.log).count > 0 := by
    show 0 < (pad β d.log.prev ++ d.log.entries).length
    rw [List.length_append, pad_length]; omega
  have hlast : d.log.last = (headSnap d).index := by unfold NLog.last; rw [he, ← hp]; rfl
  have hent : (uncLog β d.log).entries = pad β d.log.prev := by
    show pad β d.log.prev ++ d.log.entries = _
    rw [he, List.append_nil]
  have hp' : d.log.prev = ((d.snaps.head?).getD {}).index := hp
  have hlast' : d.log.last = ((d.snaps.head?).getD {}).index := hlast
  have hlt' : (((uncLog β d.log).entries.getLast?).map (·.term)).getD 0 = ((d.snaps.head?).getD {}).term := by
    rw [hent]; exact hlt
  unfold restartNode
  dsimp only
  simp only [hnr, hnu, Bool.false_eq_true, if_false, if_neg hc, if_pos hc', uncLog_last, hlt', hlast',
    scan_stop _ _ _ _ _ (Nat.le_refl _)]
  rfl

theorem restartFails_U_empty (d : Durable) (he : d.log.entries = [])
    (hp : d.log.prev = (headSnap d).index) (h0 : 0 < d.log.prev)
    (hnr : staleLog d = false) (hnu : staleLog { d with log := uncLog β d.log } = false) :
    restartFails { d with log := uncLog β d.log } = restartFails d := by
  have hc : ¬ d.log.count > 0 := by unfold NLog.count; rw [he]; simp
  have hc' : (uncLog β d.log).count > 0 := by
    show 0 < (pad β d.log.prev ++ d.log.entries).length
    rw [List.length_append, pad_length]; omega
  have hlast' : d.log.last = ((d.snaps.head?).getD {}).index := by
    unfold NLog.last; rw [he]; exact hp
  unfold restartFails
  dsimp only
  simp only [hnr, hnu, Bool.false_eq_true, if_false, if_neg hc, if_pos hc', uncLog_last, hlast',
    scan_stop _ _ _ _ _ (Nat.le_refl _)]

/-- **restart from the un-compacted disk when the log on disk is empty and starts at the newest snapshot**: the
restarted node is the un-compacted restarted node, provided the last compacted-away entry has the snapshot's term
(and neither log is reset by `openStorage`) -/
theorem restart_U_empty (d : Durable) (retain : Nat) (sor : Bool) (he : d.log.entries = [])
    (hp : d.log.prev = (headSnap d).index) (h0 : 0 < d.log.prev)
    (hnr : staleLog d = false) (hnu : staleLog { d with log := uncLog β d.log } = false)
    (hlt : (((pad β d.log.prev).getLast?).map (·.term)).getD 0 = (headSnap d).term) :
    Node.restart { d with log := uncLog β d.log } retain sor = (Node.restart d retain sor).map (U β) := by
  unfold Node.restart
  rw [restartFails_U_empty d he hp h0 hnr hnu]
  show (if d.cid = 0 ∨ d.nid = 0 then none else _) = _
  split
  · rfl
  · split
    · rfl
    · dsimp only
      rw [restartNode_U_empty d retain sor he hp h0 hnr hnu hlt]
      show some (if (restartNode d retain sor).snapIndex > 0 then _ else _) = _
      split
      · rw [U_fsmRestore]; rfl
      · rfl

end SnapInstU
end Raft
