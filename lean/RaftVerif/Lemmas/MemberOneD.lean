/-
S36 — membership changes THROUGH single-voter configurations: one whole step of `Node.step`, any role, every operation
other than an append / install-snapshot request (`step_pw`): the handler, then the role transitions — `leader.init`
included (a node elected inside the step, e.g. the only voter at its election timeout, stores its no-op entry, commits it
alone, and may go on to store configuration entries).
-/
import RaftVerif.Lemmas.MemberOneC

namespace Raft
namespace One
open Node CfgRel

/-! ### the primitives that touch neither the configurations nor the log end -/

theorem PW.same {s₀ x y : Node} (h : PW s₀ x) (h1 : y.configs.latest = x.configs.latest)
    (h2 : y.lastLogIndex = x.lastLogIndex) (h3 : y.nid = x.nid) (h4 : y.log.entries = x.log.entries)
    (hp : y.panicked = none → x.panicked = none) : PW s₀ y := by
  refine ⟨by rw [h1, h2]; exact h.li, by rw [h1]; exact h.anch, by rw [h3]; exact h.nid, fun hy => ?_⟩
  obtain ⟨k, ext, e0, e1, e2⟩ := h.chain (hp hy)
  exact ⟨k, ext, e0, by rw [h4]; exact e1, by rw [h1]; exact e2⟩

theorem doClose_same (x : Node) (r : String) :
    (x.doClose r).configs = x.configs ∧ (x.doClose r).lastLogIndex = x.lastLogIndex ∧ (x.doClose r).nid = x.nid ∧
    (x.doClose r).log = x.log ∧ (x.doClose r).panicked = x.panicked := by
  unfold Node.doClose; split <;> exact ⟨rfl, rfl, rfl, rfl, rfl⟩

theorem setVotedFor_same (x : Node) (t c : Nat) :
    (x.setVotedFor t c).configs = x.configs ∧ (x.setVotedFor t c).lastLogIndex = x.lastLogIndex ∧
    (x.setVotedFor t c).nid = x.nid ∧ (x.setVotedFor t c).log = x.log ∧ (Failed x → Failed (x.setVotedFor t c)) := by
  unfold Node.setVotedFor
  split
  · split
    · obtain ⟨a, b, _, d, _, f, g⟩ := storeTermVote_fields x t c
      exact ⟨a, d, b, f, fun h => by unfold Failed; rw [g]; exact h⟩
    · exact ⟨(panic_fields x _).2.2.2.2.2.2.2, (panic_fields x _).2.1, (q_panic x _).nid, (panic_fields x _).1,
        (q_panic x _).pan⟩
  · exact ⟨rfl, rfl, rfl, rfl, id⟩

theorem setTerm_nid (x : Node) (t : Nat) : (x.setTerm t).nid = x.nid := by
  unfold Node.setTerm
  split
  · split
    · exact (storeTermVote_fields x t 0).2.1
    · exact (q_panic x _).nid
  · rfl

/-- `PW` is preserved by every bookkeeping primitive -/
theorem pwQ (s₀ : Node) : QClosed (PW s₀) where
  panic := fun x site h => ⟨by rw [(q_panic x site).configs, (q_panic x site).lastLogIndex]; exact h.li,
    by rw [(q_panic x site).configs]; exact h.anch, by rw [(q_panic x site).nid]; exact h.nid,
    fun hp => absurd hp (failed_panic x site)⟩
  reply := fun x t r h => h.same (by rw [(q_reply x t r).configs]) (q_reply x t r).lastLogIndex (q_reply x t r).nid
    (q_reply x t r).entries (q_reply x t r).pan'
  point := fun _ _ h => h.same rfl rfl rfl rfl id
  ldr := fun _ _ h => h.same rfl rfl rfl rfl id
  popOrder := fun _ h => h.same rfl rfl rfl rfl id
  rpcReply := fun _ _ h => h.same rfl rfl rfl rfl id
  ret := fun _ _ h => h.same rfl rfl rfl rfl id
  setRole := fun _ _ h => h.same rfl rfl rfl rfl id
  setLeader := fun _ _ h => h.same rfl rfl rfl rfl id
  doClose := fun x r h => by
    obtain ⟨a, b, c, d, e⟩ := doClose_same x r
    exact h.same (by rw [a]) b c (by rw [d]) (fun hp => by rw [← e]; exact hp)
  setTerm := fun x t h => by
    obtain ⟨a, b, c, d⟩ := setTerm_same x t
    exact h.same (by rw [a]) b (setTerm_nid x t) (by rw [c]) (pan_of_failed d)
  setVotedFor := fun x t c h => by
    obtain ⟨a, b, c', d, e⟩ := setVotedFor_same x t c
    exact h.same (by rw [a]) b c' (by rw [d]) (pan_of_failed e)
  votesNeeded := fun _ _ h => h.same rfl rfl rfl rfl id
  candTransfer := fun _ _ h => h.same rfl rfl rfl rfl id
  removeLTE := fun x i h => by
    refine ⟨h.li, h.anch, h.nid, fun hp => ?_⟩
    obtain ⟨k, ext, _, e1, e2⟩ := h.chain hp
    have he : ({ x with log := x.log.removeLTE i } : Node).log.entries =
        x.log.entries.drop (((NLog.dropLTE i x.log.segs).head?).getD x.log.prev - x.log.prev) := rfl
    obtain ⟨k', h1, h2⟩ := drop_drop_le (s₀.log.entries ++ ext) k (((NLog.dropLTE i x.log.segs).head?).getD x.log.prev - x.log.prev)
    exact ⟨k', ext, h1, by rw [he, e1]; exact h2, e2⟩
  publishSnapshot := fun _ _ h => h.same rfl rfl rfl rfl id
  snapPending := fun _ _ h => h.same rfl rfl rfl rfl id
  snapResult := fun _ _ h => h.same rfl rfl rfl rfl id

/-- a recorded failure stays recorded -/
theorem failedQ : QClosed Failed where
  panic := fun x site _ => failed_panic x site
  reply := fun x t r h => (q_reply x t r).pan h
  point := fun _ _ h => h
  ldr := fun _ _ h => h
  popOrder := fun _ h => h
  rpcReply := fun _ _ h => h
  ret := fun _ _ h => h
  setRole := fun _ _ h => h
  setLeader := fun _ _ h => h
  doClose := fun x r h => by unfold Failed; rw [(doClose_same x r).2.2.2.2]; exact h
  setTerm := fun x t h => (setTerm_same x t).2.2.2 h
  setVotedFor := fun x t c h => (setVotedFor_same x t c).2.2.2.2 h
  votesNeeded := fun _ _ h => h
  candTransfer := fun _ _ h => h
  removeLTE := fun _ _ h => h
  publishSnapshot := fun _ _ h => h
  snapPending := fun _ _ h => h
  snapResult := fun _ _ h => h

/-! ### the role transitions -/

/-- "unless it has failed" -/
def PWf (s₀ x : Node) : Prop := x.panicked = none → PW s₀ x

theorem pwf_of_G {s₀ x y : Node} (h : G s₀ x y) : PWf s₀ y := by
  intro hp
  rcases h.2 with h2 | ⟨h2, _⟩
  · exact absurd hp h2
  · exact h2.pw

theorem settle_pwf (s₀ : Node) (fuel : Nat) : ∀ (x : Node) (cur : Role), PWf s₀ x → PWf s₀ (settle fuel x cur) := by
  induction fuel with
  | zero => intro x cur h; exact h
  | succ n ih =>
    intro x cur h
    unfold settle
    split
    · exact h
    · dsimp only
      refine ih _ _ (fun hp => ?_)
      have h1 : PWf s₀ (x.releaseRole cur) := fun hp1 =>
        (pwQ s₀).releaseRole_q _ _ (h (pan_of_failed (failedQ.releaseRole_q x cur) hp1))
      unfold Node.initRole at hp ⊢
      split at hp
      · exact h1 hp
      · exact (pwQ s₀).startElection_q _ (h1 (pan_of_failed (failedQ.startElection_q _) hp))
      · have hp1 : (x.releaseRole cur).panicked = none :=
          pan_of_failed (pnClosed.leaderInit_inv' (x.releaseRole cur)) hp
        exact pwf_of_G (leaderInit_G s₀ _ (h1 hp1)) hp

/-! ### the handlers -/

theorem pwf_of_pw {s₀ x : Node} (h : PW s₀ x) : PWf s₀ x := fun _ => h

/-- **every handler other than those of append / install-snapshot requests** (a bootstrapped node in any role; a leader's
caches are current) -/
theorem handle_pwf (s₀ x : Node) (op : Op) (hP : PW s₀ x) (hc : x.role = .leader → LC.Cache x) (hok : OpOk op)
    (hsr : ∀ task c, op = .changeConfig task c → Srt x.configs.latest → Srt c)
    (hna : ∀ q, op ≠ .append q) (hni : ∀ q, op ≠ .install q) (hb : x.configs.isBootstrapped = true) :
    PWf s₀ (x.handle op) := by
  have Q := pwQ s₀
  cases op with
  | vote q => exact pwf_of_pw (Q.rpcDone_q _ _ _ (Q.onVoteRequest_q _ _ hP))
  | append q => exact absurd rfl (hna q)
  | install q => exact absurd rfl (hni q)
  | timeoutNow => exact pwf_of_pw (Q.rpcDone_q _ _ _ (Q.onTimeoutNow_q _ hP))
  | identity src cid nid => exact pwf_of_pw (Q.rpcReply _ _ hP)
  | disconnected nid =>
    unfold Node.handle
    dsimp only
    split
    · exact pwf_of_pw (Q.setLeader _ _ hP)
    · exact pwf_of_pw hP
  | timeout =>
    unfold Node.handle
    dsimp only
    split
    · exact pwf_of_pw (Q.followerTimeout_q _ hP)
    · exact pwf_of_pw (Q.startElection_q _ hP)
    · exact pwf_of_pw (Q.checkQuorum_q _ hP)
  | newEntries b =>
    unfold Node.handle
    dsimp only
    split
    · rename_i hl
      exact pwf_of_G ((block s₀ 1 (by omega) _).1.1 x b (hP.v (hc hl)) hok)
    · exact pwf_of_pw (Q.rejectEntries_q _ _ hP)
  | changeConfig task c =>
    unfold Node.handle
    dsimp only
    split
    · rename_i hl
      exact pwf_of_G (onChangeConfig_one s₀ 1 (by omega) x task c (hP.v (hc hl)) hok (hsr task c rfl)).1
    · unfold Node.bootstrap
      rw [if_pos hb]
      exact pwf_of_pw (Q.reply _ _ _ hP)
  | takeSnapshot task th => exact pwf_of_pw (Q.onTakeSnapshot_q _ _ _ hP)
  | snapRun => exact pwf_of_pw (Q.snapRun_q _ hP)
  | snapTaken => exact pwf_of_pw (Q.onSnapshotTaken_q _ hP)
  | waitStable task =>
    unfold Node.handle
    dsimp only
    split
    · exact pwf_of_pw (Q.onWaitForStable_q _ _ hP)
    · exact pwf_of_pw (Q.reply _ _ _ hP)
  | transfer task target =>
    unfold Node.handle
    dsimp only
    split
    · exact pwf_of_pw (Q.onTransfer_q _ _ _ hP)
    · exact pwf_of_pw (Q.reply _ _ _ hP)
  | voteResult err term result =>
    unfold Node.handle
    dsimp only
    split
    · exact pwf_of_pw (Q.onVoteResult_q _ _ _ _ hP)
    · exact pwf_of_pw hP
  | replUpdates us =>
    unfold Node.handle
    dsimp only
    split
    · rename_i hl
      exact pwf_of_G (checkReplUpdates_G s₀ x us (hP.v (hc hl)))
    · exact pwf_of_pw hP
  | transferTimeout =>
    unfold Node.handle
    dsimp only
    split
    · rename_i hl
      exact pwf_of_G (replyTransfer_G s₀ x _ (hP.v (hc hl.1)))
    · exact pwf_of_pw hP
  | timeoutNowResult src err result =>
    unfold Node.handle
    dsimp only
    split
    · rename_i hl
      exact pwf_of_G (onTimeoutNowResult_G s₀ x src err result (hP.v (hc hl.1)))
    · exact pwf_of_pw hP
  | newTermTimeout =>
    unfold Node.handle
    dsimp only
    split
    · exact pwf_of_pw (Q.tryTransfer_q _ (Q.ldr _ _ hP))
    · exact pwf_of_pw hP
  | shutdown => exact pwf_of_pw (Q.shutdown_q _ hP)

/-- **one whole step** of a bootstrapped node in any role (a leader's caches current; `latest.index ≤ lastLogIndex`; an
anchor), every operation other than an append / install-snapshot request, any oracle and input: unless the step fails, the
entries appended within it — by the handler or by `leader.init` if the node is elected inside the step — form a `Chain1`
from the latest configuration before to the latest configuration after the step. -/
theorem step_pw (s : Node) (op : Op) (ra : List Nat) (ord : List (List Nat))
    (hli : s.configs.latest.index ≤ s.lastLogIndex) (hanch : AnchC s.configs.latest)
    (hc : s.role = .leader → LC.Cache s) (hok : OpOk op)
    (hsr : ∀ task c, op = .changeConfig task c → Srt s.configs.latest → Srt c)
    (hna : ∀ q, op ≠ .append q) (hni : ∀ q, op ≠ .install q) (hb : s.configs.isBootstrapped = true)
    (hp : (s.step op ra ord).panicked = none) : PW s (s.step op ra ord) := by
  have hP : PW (s.begin ra ord) (s.begin ra ord) := PW.refl _ hli hanch
  have hh := handle_pwf (s.begin ra ord) (s.begin ra ord) op hP (fun hl => (hc hl).congr rfl) hok hsr hna hni hb
  have key : PWf (s.begin ra ord) (s.step op ra ord) := by
    unfold Node.step
    dsimp only
    split
    · exact hh
    · exact settle_pwf _ 6 _ _ hh
  obtain ⟨a, b, c, d⟩ := key hp
  exact ⟨a, b, c, d⟩

end One
end Raft
