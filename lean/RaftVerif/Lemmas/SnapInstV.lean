/-
Un-compaction with the segment list kept as it is (`SnapInstV.V β s`): `SnapRelU.U β s` (Lemmas/SnapRelU.lean: the
compacted prefix `β` is put back in front of the log, the compaction bounds of the leader record are forgotten; the same at
every crash point) except that the segment list of the un-compacted log is the segment list of the compacted log (no extra
segment in front).  With this choice `RemoveGTE` commutes with the un-compaction ALSO when it empties the compacted log
(an append request that overwrites the first entry of a log that starts at its snapshot index — the case `AOK` /
`NoCut` exclude), at the price of a hypothesis where the handler reads `lastSegPrev`: the segment list is not empty.

Only what the handler of append requests needs is ported: `append_step_V` — for a log that starts at or below the
snapshot index and has a non-empty segment list (`AV`), without any condition on the request.
-/
import RaftVerif.Lemmas.SnapInstU

namespace Raft
namespace SnapInstV
open Node SnapRelP SnapRel SnapRelU SnapSim

/-- the log with the compacted prefix `b` put back; the segment list stays -/
def vLog (b : List Entry) (l : NLog) : NLog :=
  { prev := 0, entries := pad b l.prev ++ l.entries, flushed := l.flushed, segs := l.segs }

/-- a disk image with the compacted prefix put back -/
def vD (b : List Entry) (d : Durable) : Durable :=
  { d with log := { prev := 0, entries := (pad b d.log.prev ++ d.log.entries).take d.log.flushed,
                    flushed := d.log.flushed, segs := d.log.segs } }

def vP (b : List Entry) (p : String × Durable) : String × Durable := (p.1, vD b p.2)

/-- **the node with its log un-compacted, segment list unchanged** -/
def V (b : List Entry) (s : Node) : Node :=
  { s with log := vLog b s.log, ldr := zr s.ldr, trace := s.trace.map (vP b) }

variable {β : List Entry}

theorem vLog_last (l : NLog) : (vLog β l).last = l.last := by
  unfold vLog NLog.last
  dsimp only
  rw [List.length_append, pad_length]; omega

theorem vLog_lastSegPrev (l : NLog) (h : l.segs ≠ []) : (vLog β l).lastSegPrev = l.lastSegPrev := by
  unfold vLog NLog.lastSegPrev
  dsimp only
  cases hl : l.segs.getLast? with
  | none => exact absurd (List.getLast?_eq_none_iff.mp hl) h
  | some x => rfl

theorem vLog_append (l : NLog) (e : Entry) (roll : Bool) : (vLog β l).append e roll = vLog β (l.append e roll) := by
  unfold NLog.append
  rw [vLog_last]
  split
  · unfold vLog; simp only [List.append_assoc]
  · unfold vLog; simp only [List.append_assoc]

theorem vLog_commitN (l : NLog) (n : Nat) (h : l.segs ≠ []) : (vLog β l).commitN n = vLog β (l.commitN n) := by
  unfold NLog.commitN
  rw [vLog_lastSegPrev l h, vLog_last]
  split <;> rfl

theorem V_durable (s : Node) : (V β s).durable = vD β s.durable := by
  unfold Node.durable V vD vLog NLog.durable
  dsimp only
  congr 1
  congr 1
  have := take_pad (pad β s.log.prev) s.log.entries s.log.flushed
  rw [pad_length] at this
  rw [Nat.sub_zero]
  exact this.symm

/-! ### projections -/

@[uproj] theorem V_cid (s : Node) : (V β s).cid = s.cid := rfl
@[uproj] theorem V_nid (s : Node) : (V β s).nid = s.nid := rfl
@[uproj] theorem V_retain (s : Node) : (V β s).retain = s.retain := rfl
@[uproj] theorem V_shutdownOnRemove (s : Node) : (V β s).shutdownOnRemove = s.shutdownOnRemove := rfl
@[uproj] theorem V_term (s : Node) : (V β s).term = s.term := rfl
@[uproj] theorem V_votedFor (s : Node) : (V β s).votedFor = s.votedFor := rfl
@[uproj] theorem V_durTerm (s : Node) : (V β s).durTerm = s.durTerm := rfl
@[uproj] theorem V_durVote (s : Node) : (V β s).durVote = s.durVote := rfl
theorem V_log (s : Node) : (V β s).log = vLog β s.log := rfl
@[usimp] theorem V_log_last (s : Node) : (V β s).log.last = s.log.last := vLog_last s.log
@[uproj] theorem V_lastLogIndex (s : Node) : (V β s).lastLogIndex = s.lastLogIndex := rfl
@[uproj] theorem V_lastLogTerm (s : Node) : (V β s).lastLogTerm = s.lastLogTerm := rfl
@[uproj] theorem V_configs (s : Node) : (V β s).configs = s.configs := rfl
@[uproj] theorem V_role (s : Node) : (V β s).role = s.role := rfl
@[uproj] theorem V_leader (s : Node) : (V β s).leader = s.leader := rfl
@[uproj] theorem V_commitIndex (s : Node) : (V β s).commitIndex = s.commitIndex := rfl
@[uproj] theorem V_fsm (s : Node) : (V β s).fsm = s.fsm := rfl
@[uproj] theorem V_votesNeeded (s : Node) : (V β s).votesNeeded = s.votesNeeded := rfl
@[uproj] theorem V_candTransfer (s : Node) : (V β s).candTransfer = s.candTransfer := rfl
theorem V_ldr (s : Node) : (V β s).ldr = zr s.ldr := rfl
@[uproj] theorem V_ldr_node (s : Node) : (V β s).ldr.node = s.ldr.node := rfl
@[uproj] theorem V_ldr_numVoters (s : Node) : (V β s).ldr.numVoters = s.ldr.numVoters := rfl
@[uproj] theorem V_ldr_startIndex (s : Node) : (V β s).ldr.startIndex = s.ldr.startIndex := rfl
@[uproj] theorem V_ldr_queue (s : Node) : (V β s).ldr.queue = s.ldr.queue := rfl
@[uproj] theorem V_ldr_transfer (s : Node) : (V β s).ldr.transfer = s.ldr.transfer := rfl
@[uproj] theorem V_ldr_waitStable (s : Node) : (V β s).ldr.waitStable = s.ldr.waitStable := rfl
@[uproj] theorem V_snapPending (s : Node) : (V β s).snapPending = s.snapPending := rfl
@[uproj] theorem V_snapResult (s : Node) : (V β s).snapResult = s.snapResult := rfl
@[uproj] theorem V_closed (s : Node) : (V β s).closed = s.closed := rfl
@[uproj] theorem V_rollAt (s : Node) : (V β s).rollAt = s.rollAt := rfl
@[uproj] theorem V_orders (s : Node) : (V β s).orders = s.orders := rfl
@[uproj] theorem V_replies (s : Node) : (V β s).replies = s.replies := rfl
@[uproj] theorem V_rpcReply (s : Node) : (V β s).rpcReply = s.rpcReply := rfl
@[uproj] theorem V_result (s : Node) : (V β s).result = s.result := rfl
@[uproj] theorem V_panicked (s : Node) : (V β s).panicked = s.panicked := rfl
@[uproj] theorem V_trace (s : Node) : (V β s).trace = s.trace.map (vP β) := rfl
@[uproj] theorem V_snapIndex (s : Node) : (V β s).snapIndex = s.snapIndex := rfl
@[uproj] theorem V_snapTerm (s : Node) : (V β s).snapTerm = s.snapTerm := rfl
@[uproj] theorem V_snapsDisk (s : Node) : (V β s).snapsDisk = s.snapsDisk := rfl
@[uproj] theorem vLog_prev (l : NLog) : (vLog β l).prev = 0 := rfl
@[uproj] theorem vLog_flushed (l : NLog) : (vLog β l).flushed = l.flushed := rfl

@[uproj] theorem V_releaseResult (s : Node) : (V β s).releaseResult = s.releaseResult := rfl
@[uproj] theorem V_notLeader (s : Node) (x : Bool) : (V β s).notLeader x = s.notLeader x := rfl
@[uproj] theorem V_isClosed (s : Node) : (V β s).isClosed = s.isClosed := rfl
@[uproj] theorem V_mkReply (s : Node) (x y : Bool) : (V β s).mkReply x y = s.mkReply x y := rfl
@[uproj] theorem V_canCommit (s : Node) (q : AppendReq) (i t : Nat) : (V β s).canCommit q i t = s.canCommit q i t := rfl

/-! ### primitive state updates -/

@[usimp] theorem V_point (s : Node) (n : String) : (V β s).point n = V β (s.point n) := by
  show ({ V β s with trace := (V β s).trace ++ [(n, (V β s).durable)] } : Node) = _
  rw [V_durable]
  unfold V Node.point
  simp only [List.map_append, List.map_cons, List.map_nil, vP]

@[usimp] theorem V_panic (s : Node) (site : String) : (V β s).panic site = V β (s.panic site) := by
  unfold Node.panic
  show (if s.panicked.isNone = true then _ else _) = _
  split <;> rfl

@[usimp] theorem V_assert (s : Node) (x : Bool) (site : String) : (V β s).assert x site = V β (s.assert x site) := by
  unfold Node.assert; split
  · rfl
  · exact V_panic s site

@[usimp] theorem V_reply (s : Node) (t : Nat) (r : String) : (V β s).reply t r = V β (s.reply t r) := by
  unfold Node.reply; split <;> rfl

@[usimp] theorem V_setRole (s : Node) (r : Role) : (V β s).setRole r = V β (s.setRole r) := rfl
@[usimp] theorem V_withFsm (s : Node) (f : Fsm) : (V β s).withFsm f = V β (s.withFsm f) := rfl
@[usimp] theorem V_withCandTransfer (s : Node) (v : Bool) : (V β s).withCandTransfer v = V β (s.withCandTransfer v) := rfl
@[usimp] theorem V_withRpcReply (s : Node) (v : Option RpcReply) : (V β s).withRpcReply v = V β (s.withRpcReply v) := rfl
@[usimp] theorem V_withCommitIndex (s : Node) (i : Nat) : (V β s).withCommitIndex i = V β (s.withCommitIndex i) := rfl
@[usimp] theorem V_ret (s : Node) (r : Nat) : (V β s).ret r = V β (s.ret r) := rfl
@[usimp] theorem V_setLeader (s : Node) (l : Nat) : (V β s).setLeader l = V β (s.setLeader l) := rfl

@[usimp] theorem V_withLdr_keep (s : Node) (nd : CNode) (nv si : Nat) (q : List QItem) (tr : Transfer) (ws : List Nat) :
    (V β s).withLdr ⟨nd, nv, si, q, (V β s).ldr.repls, tr, ws, (V β s).ldr.removeLTE⟩ =
      V β (s.withLdr ⟨nd, nv, si, q, s.ldr.repls, tr, ws, s.ldr.removeLTE⟩) := rfl

@[usimp] theorem ite_V (c : Prop) {inst : Decidable c} (x y : Node) :
    @ite Node c inst (V β x) (V β y) = V β (@ite Node c inst x y) := by
  split <;> rfl

/-! ### storage primitives -/

@[usimp] theorem V_storeTermVote (s : Node) (t c : Nat) : (V β s).storeTermVote t c = V β (s.storeTermVote t c) := by
  rw [U_storeTermVote_aux, U_storeTermVote_aux]
  by_cases h : t = s.durTerm ∧ c = s.durVote
  · rw [if_pos h, if_pos (show t = (V β s).durTerm ∧ c = (V β s).durVote from h)]; rfl
  · rw [if_neg h, if_neg (show ¬ (t = (V β s).durTerm ∧ c = (V β s).durVote) from h)]
    show ({ (V β { s with durTerm := t, durVote := c }).point "value.set" with term := t, votedFor := c } : Node) = _
    rw [V_point]; rfl

@[usimp] theorem V_setTerm (s : Node) (t : Nat) : (V β s).setTerm t = V β (s.setTerm t) := by
  unfold Node.setTerm
  have hp : True := trivial
  ucomm hp

theorem V_appendRaw (s : Node) (e : Entry) (h : s.log.segs ≠ []) : appendRaw (V β s) e = V β (appendRaw s e) := by
  unfold appendRaw
  show ({ V β s with log := (vLog β s.log).append e (s.rollAt.contains (e.index - 1) &&
      (vLog β s.log).lastSegPrev != e.index - 1), lastLogIndex := e.index, lastLogTerm := e.term } : Node) = _
  rw [vLog_append, vLog_lastSegPrev _ h]
  rfl

theorem lobs_assert (s : Node) (x : Bool) (site : String) : (s.assert x site).log = s.log := by
  unfold Node.assert; split
  · rfl
  · exact lobs_panic s site

theorem V_appendEntry (s : Node) (e : Entry) (h : s.log.segs ≠ []) : (V β s).appendEntry e = V β (s.appendEntry e) := by
  rw [appendEntry_eq, appendEntry_eq]
  show appendRaw ((V β s).assert (e.index == s.lastLogIndex + 1) "assert.appendEntry") e = _
  rw [V_assert, V_appendRaw _ _ (by rw [lobs_assert]; exact h)]

theorem V_commitLog (s : Node) (n : Nat) (h : s.log.segs ≠ []) : (V β s).commitLog n = V β (s.commitLog n) := by
  unfold Node.commitLog
  show ({ V β s with log := (vLog β s.log).commitN n } : Node).point _ = _
  rw [vLog_commitN _ _ h]
  show (V β { s with log := s.log.commitN n }).point _ = _
  rw [V_point]

@[usimp] theorem V_doClose (s : Node) (r : String) : (V β s).doClose r = V β (s.doClose r) := by
  unfold Node.doClose
  have hp : True := trivial
  ucomm hp

/-! ### configuration bookkeeping -/

@[usimp] theorem V_changeConfigR (s : Node) (c : Config) : (V β s).changeConfigR c = V β (s.changeConfigR c) := by
  unfold Node.changeConfigR
  have hp : True := trivial
  ucomm hp

@[usimp] theorem V_commitConfig (s : Node) : (V β s).commitConfig = V β s.commitConfig := by
  unfold Node.commitConfig
  have hp : True := trivial
  ucomm hp

@[usimp] theorem V_revertConfig (s : Node) : (V β s).revertConfig = V β s.revertConfig := rfl

@[usimp] theorem V_stepDownIfNotVoter (s : Node) : (V β s).stepDownIfNotVoter = V β s.stepDownIfNotVoter := by
  unfold Node.stepDownIfNotVoter
  have hp : True := trivial
  ucomm hp

@[usimp] theorem V_closeIfRemoved (s : Node) : (V β s).closeIfRemoved = V β s.closeIfRemoved := by
  unfold Node.closeIfRemoved
  have hp : True := trivial
  ucomm hp

@[usimp] theorem V_afterConfigCommit (s : Node) : (V β s).afterConfigCommit = V β s.afterConfigCommit := by
  unfold Node.afterConfigCommit
  have hp : True := trivial
  ucomm hp

@[usimp] theorem V_setCommitIndexR_1 (s : Node) (i : Nat) : ((V β s).setCommitIndexR i).1 = V β (s.setCommitIndexR i).1 := by
  unfold Node.setCommitIndexR
  have hp : True := trivial
  ucomm hp

@[usimp] theorem V_setCommitIndexR_2 (s : Node) (i : Nat) : ((V β s).setCommitIndexR i).2 = (s.setCommitIndexR i).2 := by
  unfold Node.setCommitIndexR
  dsimp +instances only [uproj]
  split <;> rfl

/-! ### the FSM goroutine -/

@[usimp] theorem V_fsmApplyLogTo (s : Node) (n : Nat) (hp : (s.fsmApplyLogTo n).panicked = none) :
    (V β s).fsmApplyLogTo n = V β (s.fsmApplyLogTo n) := by
  unfold Node.fsmApplyLogTo at hp ⊢
  by_cases h1 : n ≤ s.fsm.index
  · rw [if_pos h1]; rw [if_pos (show n ≤ (V β s).fsm.index from h1)]
  · rw [if_neg h1] at hp ⊢
    rw [if_neg (show ¬ n ≤ (V β s).fsm.index from h1)]
    by_cases h2 : s.fsm.index < s.log.prev
    · rw [if_pos h2] at hp
      exact absurd hp (panic_ne_none _ _)
    · rw [if_neg h2] at hp ⊢
      rw [if_neg (show ¬ (V β s).fsm.index < (V β s).log.prev from Nat.not_lt_zero _)]
      have he : (V β s).log.entries.drop ((V β s).fsm.index - (V β s).log.prev) =
          s.log.entries.drop (s.fsm.index - s.log.prev) := by
        show (pad β s.log.prev ++ s.log.entries).drop (s.fsm.index - 0) = _
        rw [Nat.sub_zero, drop_pad _ _ _ (by rw [pad_length]; omega), pad_length]
      dsimp only
      rw [he]
      have hq : True := trivial
      ucomm hq

@[usimp] theorem V_fsmApplyItems (s : Node) (qs : List QItem) : (V β s).fsmApplyItems qs = V β (s.fsmApplyItems qs) := by
  induction qs generalizing s with
  | nil => rfl
  | cons q qs ih =>
    unfold Node.fsmApplyItems
    have hp : True := trivial
    ucomm hp [ih]

@[usimp] theorem V_fsmApply (s : Node) (qs : List QItem) (hp : (s.fsmApply qs).panicked = none) :
    (V β s).fsmApply qs = V β (s.fsmApply qs) := by
  unfold Node.fsmApply at hp ⊢
  by_cases h1 : s.commitIndex > s.log.last
  · rw [if_pos h1] at hp; exact absurd hp (panic_ne_none _ _)
  · rw [if_neg h1] at hp ⊢
    rw [if_neg (show ¬ (V β s).commitIndex > (V β s).log.last from by rw [V_log_last]; exact h1)]
    by_cases h2 : s.log.prev > s.commitIndex
    · rw [if_pos h2] at hp; exact absurd hp (panic_ne_none _ _)
    · rw [if_neg h2] at hp ⊢
      rw [if_neg (show ¬ (V β s).log.prev > (V β s).commitIndex from Nat.not_lt_zero _)]
      dsimp only at hp ⊢
      ucomm hp

@[usimp] theorem V_applyCommitted (s : Node) (hp : s.applyCommitted.panicked = none) :
    (V β s).applyCommitted = V β s.applyCommitted := by
  unfold Node.applyCommitted at hp ⊢
  exact V_fsmApply s [] hp

/-! ### release of the previous role -/

@[usimp] theorem V_transferReply (s : Node) (r : String) : (V β s).transferReply r = V β (s.transferReply r) := by
  unfold Node.transferReply
  have hp : True := trivial
  ucomm hp

theorem foldl_V' {α : Type} (f : Node → α → Node) (hf : ∀ s x, f (V β s) x = V β (f s x)) (xs : List α) (s : Node) :
    xs.foldl f (V β s) = V β (xs.foldl f s) := by
  induction xs generalizing s with
  | nil => rfl
  | cons x xs ih => simp only [List.foldl_cons, hf, ih]

@[usimp] theorem foldl_reply_V {α : Type} (g : α → Nat) (r : String) (xs : List α) (s : Node) :
    xs.foldl (fun s x => s.reply (g x) r) (V β s) = V β (xs.foldl (fun s x => s.reply (g x) r) s) :=
  foldl_V' _ (fun s x => V_reply s (g x) r) xs s

theorem V_withLdr_released (s : Node) (nd : CNode) (nv si : Nat) :
    (V β s).withLdr { node := nd, numVoters := nv, startIndex := si, removeLTE := (V β s).ldr.removeLTE } =
      V β (s.withLdr { node := nd, numVoters := nv, startIndex := si, removeLTE := s.ldr.removeLTE }) := rfl

@[usimp] theorem V_leaderReleaseRest (s : Node) : (V β s).leaderReleaseRest = V β s.leaderReleaseRest := by
  unfold Node.leaderReleaseRest
  have hp : True := trivial
  ucomm hp [V_withLdr_released]

@[usimp] theorem V_leaderRelease (s : Node) : (V β s).leaderRelease = V β s.leaderRelease := by
  unfold Node.leaderRelease
  have hp : True := trivial
  ucomm hp

@[usimp] theorem V_releaseRole (s : Node) (r : Role) : (V β s).releaseRole r = V β (s.releaseRole r) := by
  unfold Node.releaseRole
  have hp : True := trivial
  ucomm hp

@[usimp] theorem V_rpcDone (s : Node) (a b : Bool) : (V β s).rpcDone a b = V β (s.rpcDone a b) := by
  unfold Node.rpcDone
  have hp : True := trivial
  ucomm hp

@[usimp] theorem V_begin (s : Node) (ra : List Nat) (ord : List (List Nat)) : (V β s).begin ra ord = V β (s.begin ra ord) := rfl

/-! ### append requests -/

/-- the first index of the log is at or below the snapshot index and the segment list is not empty -/
def AV (s : Node) : Prop := s.log.prev ≤ s.snapIndex ∧ s.log.segs ≠ []

theorem V_get? (s : Node) (i : Nat) (h : s.log.prev < i) : (V β s).log.get? i = s.log.get? i := by
  unfold NLog.get?
  rw [if_pos h]
  show (if 0 < i then (pad β s.log.prev ++ s.log.entries)[i - 0 - 1]? else none) = _
  rw [if_pos (by omega), List.getElem?_append_right (by rw [pad_length]; omega), pad_length]
  congr 1
  omega

theorem V_entryTerm? (s : Node) (i : Nat) (h : s.log.prev < i) : (V β s).entryTerm? i = s.entryTerm? i := by
  unfold Node.entryTerm?
  rw [V_get? s i h]

theorem vLog_removeGTE (l : NLog) (i : Nat) (h : l.prev ≤ i - 1) : (vLog β l).removeGTE i = vLog β (l.removeGTE i) := by
  unfold NLog.removeGTE vLog
  dsimp only
  have e1 : (pad β l.prev ++ l.entries).take (i - 1 - 0) = pad β l.prev ++ l.entries.take (i - 1 - l.prev) := by
    rw [Nat.sub_zero, List.take_append, pad_length, List.take_of_length_le (by rw [pad_length]; exact h)]
  rw [e1]

theorem V_removeGTE (s : Node) (i pt : Nat) (h : s.log.prev ≤ i - 1) :
    (V β s).removeGTE i pt = V β (s.removeGTE i pt) := by
  unfold Node.removeGTE
  show ({ V β s with log := (vLog β s.log).removeGTE i, lastLogIndex := i - 1, lastLogTerm := pt } : Node).point _ = _
  rw [vLog_removeGTE _ _ h]
  show (V β { s with log := s.log.removeGTE i, lastLogIndex := i - 1, lastLogTerm := pt }).point _ = _
  rw [V_point]

theorem V_resolveConflict (s : Node) (ne : Entry) (pt : Nat) (hlt : s.log.prev < ne.index) :
    (V β s).resolveConflict ne pt = V β (s.resolveConflict ne pt) := by
  unfold Node.resolveConflict
  rw [V_entryTerm? s ne.index hlt]
  show (if ne.index ≤ s.lastLogIndex then _ else _) = _
  split
  · cases s.entryTerm? ne.index with
    | none => exact V_panic s _
    | some t =>
      dsimp only
      rw [V_removeGTE s ne.index pt (by omega)]
      show (if ne.index ≤ (s.removeGTE ne.index pt).configs.latest.index then _ else _) = _
      split <;> rfl
  · rfl

theorem AV_congr {s s' : Node} (h : AV s) (e1 : s'.log.prev = s.log.prev) (e2 : s'.snapIndex = s.snapIndex)
    (e3 : s.log.segs ≠ [] → s'.log.segs ≠ []) : AV s' := by
  unfold AV at h ⊢
  rw [e1, e2]
  exact ⟨h.1, e3 h.2⟩

theorem removeGTE_segs_ne (l : NLog) (i : Nat) : (l.removeGTE i).segs ≠ [] := by
  unfold NLog.removeGTE
  dsimp only
  split
  · exact List.cons_ne_nil _ _
  · rename_i h
    intro hc
    apply h
    rw [hc]; rfl

theorem AV_resolveConflict (s : Node) (ne : Entry) (pt : Nat) (ha : AV s) : AV (s.resolveConflict ne pt) := by
  unfold Node.resolveConflict
  split
  · split
    · exact AV_congr ha (by rw [lobs_panic]) (snapIndex_panic _ _) (fun h => by rw [lobs_panic]; exact h)
    · dsimp only
      have key : AV (s.removeGTE ne.index pt) :=
        AV_congr ha rfl rfl (fun _ => removeGTE_segs_ne s.log ne.index)
      split
      · exact AV_congr key rfl rfl id
      · exact key
  · exact ha

theorem AV_appendEntry (s : Node) (e : Entry) (ha : AV s) : AV (s.appendEntry e) := by
  rw [appendEntry_eq]
  have h1 : AV (s.assert (e.index == s.lastLogIndex + 1) "assert.appendEntry") := by
    unfold Node.assert
    split
    · exact ha
    · exact AV_congr ha (by rw [lobs_panic]) (snapIndex_panic _ _) (fun h => by rw [lobs_panic]; exact h)
  generalize s.assert (e.index == s.lastLogIndex + 1) "assert.appendEntry" = s1 at h1
  unfold appendRaw
  refine AV_congr h1 ?_ rfl (fun h => ?_)
  · show (s1.log.append e _).prev = _
    unfold NLog.append; split <;> rfl
  · show (s1.log.append e _).segs ≠ []
    unfold NLog.append
    split
    · intro hc
      have := congrArg List.length hc
      simp at this
    · exact h

theorem AV_changeConfigR (s : Node) (c : Config) (ha : AV s) : AV (s.changeConfigR c) := by
  unfold Node.changeConfigR
  dsimp only
  split <;> exact AV_congr ha rfl rfl id

/-- `V` on the state of the entry-consuming loop -/
def Vl (β : List Entry) (st : AppLoop) : AppLoop := { st with s := V β st.s }

/-- **the entry-consuming loop**, whatever the request -/
theorem appendLoop_V (es : List Entry) : ∀ (st : AppLoop), AV st.s →
    appendLoop (Vl β st) es = Vl β (appendLoop st es) ∧ AV (appendLoop st es).s := by
  induction es with
  | nil => intro st ha; exact ⟨rfl, ha⟩
  | cons ne rest ih =>
    intro st ha
    unfold appendLoop
    by_cases herr : st.err = true
    · rw [if_pos herr, if_pos (show (Vl β st).err = true from herr)]; exact ⟨rfl, ha⟩
    · rw [if_neg herr, if_neg (show ¬ (Vl β st).err = true from herr)]
      dsimp only
      by_cases hsn : ne.index ≤ st.s.snapIndex
      · rw [if_pos hsn, if_pos (show ne.index ≤ (Vl β st).s.snapIndex from hsn)]
        exact ih { st with index := ne.index, term := ne.term } ha
      · rw [if_neg hsn, if_neg (show ¬ ne.index ≤ (Vl β st).s.snapIndex from hsn)]
        have hlt : st.s.log.prev < ne.index := by have := ha.1; omega
        have et : (Vl β st).s.entryTerm? ne.index = st.s.entryTerm? ne.index := V_entryTerm? st.s ne.index hlt
        rw [et]
        show (if (decide (ne.index ≤ st.s.lastLogIndex) && st.s.entryTerm? ne.index == some ne.term) = true then _ else _) = _ ∧ _
        split
        · exact ih { st with index := ne.index, term := ne.term } ha
        · have ha1 : AV (st.s.resolveConflict ne st.term) := AV_resolveConflict _ _ _ ha
          have e1 : ((Vl β st).s.resolveConflict ne (Vl β st).term).appendEntry ne =
              V β ((st.s.resolveConflict ne st.term).appendEntry ne) := by
            show ((V β st.s).resolveConflict ne st.term).appendEntry ne = _
            rw [V_resolveConflict _ _ _ hlt, V_appendEntry _ _ ha1.2]
          show (if ne.typ = etConfig then _ else _) = _ ∧ _
          rw [e1]
          have ha2 : AV ((st.s.resolveConflict ne st.term).appendEntry ne) := AV_appendEntry _ _ ha1
          split
          · split
            · rename_i c hc
              rw [V_changeConfigR]
              exact ih { st with index := ne.index, term := ne.term,
                                 s := ((st.s.resolveConflict ne st.term).appendEntry ne).changeConfigR c, syncLog := true }
                (AV_changeConfigR _ _ ha2)
            · exact ⟨rfl, ha2⟩
          · exact ih { st with index := ne.index, term := ne.term,
                               s := (st.s.resolveConflict ne st.term).appendEntry ne, syncLog := true } ha2

theorem checkBody_V (s : Node) (q : AppendReq) (ha : AV s) (hq : s.snapIndex < q.prevLogIndex)
    (hp : (checkBody s q).panicked = none) : checkBody (V β s) q = V β (checkBody s q) := by
  have hlt : s.log.prev < q.prevLogIndex := by have := ha.1; omega
  unfold checkBody at hp ⊢
  rw [V_entryTerm? s _ hlt]
  dsimp +instances only [uproj] at hp ⊢
  by_cases h1 : q.prevLogIndex > s.lastLogIndex
  · simp only [if_pos h1]; rfl
  · simp only [if_neg h1] at hp ⊢
    by_cases h2 : q.prevLogIndex = s.lastLogIndex
    · simp only [if_pos h2] at hp ⊢
      ucomm hp [V_entryTerm? s _ hlt]
    · simp only [if_neg h2] at hp ⊢
      cases het : s.entryTerm? q.prevLogIndex with
      | none =>
        simp only [het] at hp
        have : (s.panic "bug.mustGetEntry").panicked = none := by npk_core hp
        exact absurd this (panic_ne_none _ _)
      | some t =>
        simp only [het] at hp ⊢
        ucomm hp [V_entryTerm? s _ hlt, het]

theorem appendCheck_V (s : Node) (q : AppendReq) (ha : AV s) (hp : (s.appendCheck q).panicked = none) :
    (V β s).appendCheck q = V β (s.appendCheck q) := by
  rw [appendCheck_eq] at hp ⊢
  rw [appendCheck_eq]
  show (if q.prevLogIndex > s.snapIndex then _ else _) = _
  split
  · rename_i h
    rw [if_pos h] at hp
    exact checkBody_V s q ha h hp
  · rfl

theorem appendTail_V (q : AppendReq) (s : Node) (ha : AV s) (hp : (appendTail q s).panicked = none) :
    appendTail q (V β s) = V β (appendTail q s) := by
  unfold appendTail at hp ⊢
  by_cases hr : s.result ≠ 0
  · rw [if_pos hr, if_pos (show (V β s).result ≠ 0 from hr)]
  · rw [if_neg hr] at hp
    rw [if_neg hr, if_neg (show ¬ (V β s).result ≠ 0 from hr)]
    obtain ⟨hl', hav⟩ := appendLoop_V (β := β) q.entries { s := s, index := q.prevLogIndex, term := q.prevLogTerm } ha
    have hl'' : appendLoop { s := V β s, index := q.prevLogIndex, term := q.prevLogTerm } q.entries =
        Vl β (appendLoop { s := s, index := q.prevLogIndex, term := q.prevLogTerm } q.entries) := hl'
    rw [hl'']
    generalize appendLoop { s := s, index := q.prevLogIndex, term := q.prevLogTerm } q.entries = st at hp hav ⊢
    show (let s := V β st.s
          let s := if (!q.entries.isEmpty) = true ∧ st.syncLog = true then
              let s := s.commitLog s.lastLogIndex
              if s.canCommit q st.index st.term = true then (s.setCommitIndexR st.index).1.applyCommitted else s
            else s
          s.ret (if st.err = true then rUnexpectedErr else rSuccess)) = _
    dsimp only at hp ⊢
    by_cases hc : (!q.entries.isEmpty) = true ∧ st.syncLog = true
    · simp only [if_pos hc] at hp ⊢
      rw [show (V β st.s).lastLogIndex = st.s.lastLogIndex from rfl, V_commitLog _ _ hav.2]
      ucomm hp
    · simp only [if_neg hc] at hp ⊢
      rfl

theorem onAppendEntries_V (s : Node) (q : AppendReq) (ha : AV s) (hp : (s.onAppendEntries q).panicked = none) :
    (V β s).onAppendEntries q = V β (s.onAppendEntries q) := by
  rw [onAppendEntries_eq] at hp ⊢
  rw [onAppendEntries_eq]
  by_cases hst : q.term < s.term
  · rw [if_pos hst, if_pos (show q.term < (V β s).term from hst)]; rfl
  · rw [if_neg hst] at hp
    rw [if_neg hst, if_neg (show ¬ q.term < (V β s).term from hst)]
    have ea := aobs_appendHead s q
    unfold aobs at ea
    simp only [Prod.mk.injEq] at ea
    have h2 : AV (appendHead q s) := AV_congr ha (by rw [ea.1]) ea.2.2.2.2 (fun h => by rw [ea.1]; exact h)
    have eh : appendHead q (V β s) = V β (appendHead q s) := by
      unfold appendHead
      have hp' : True := trivial
      ucomm hp'
    have hc : ((appendHead q s).appendCheck q).panicked = none := by
      exact npk (k := fun x => appendTail q x) (fun π x => P_appendTail q x) hp
    rw [eh, appendCheck_V _ q h2 hc]
    obtain ⟨e, _⟩ := CommitRel.appendCheck_fobs (appendHead q s) q
    unfold CommitRel.fobs LogRel.Core at e
    simp only [Prod.mk.injEq] at e
    exact appendTail_V q _ (AV_congr h2 (by rw [e.1.1]) e.1.2.2.2.1 (fun h => by rw [e.1.1]; exact h)) hp

/-- **an append request is handled alike on the un-compacted log (segment list kept)** — whatever the request -/
theorem append_step_V (s : Node) (q : AppendReq) (ra : List Nat) (ord : List (List Nat)) (ha : AV s)
    (hp : (s.step (.append q) ra ord).panicked = none) :
    (V β s).step (.append q) ra ord = V β (s.step (.append q) ra ord) := by
  have hp' : (settle 6 (((s.begin ra ord).onAppendEntries q).rpcDone false true) (s.begin ra ord).role).panicked = none := hp
  show settle 6 ((((V β s).begin ra ord).onAppendEntries q).rpcDone false true) ((V β s).begin ra ord).role =
    V β (settle 6 (((s.begin ra ord).onAppendEntries q).rpcDone false true) (s.begin ra ord).role)
  have h1 : ((s.begin ra ord).onAppendEntries q).panicked = none := by npk_core hp'
  have hb : AV (s.begin ra ord) := ha
  -- the role after the handler: the old one (stale request) or follower
  have hr : (((s.begin ra ord).onAppendEntries q).rpcDone false true).role = (s.begin ra ord).role ∨
      (((s.begin ra ord).onAppendEntries q).rpcDone false true).role = .follower := by
    rw [(Node.SameKey.rpcDone _ _ _).role]
    by_cases hst : q.term < (s.begin ra ord).term
    · left
      rw [C04.stale_append_refused _ q hst]; rfl
    · exact Or.inr (LogRel.onAppendEntries_role _ q hst)
  rw [V_begin, onAppendEntries_V _ q hb h1, V_rpcDone]
  show settle 6 (V β (((s.begin ra ord).onAppendEntries q).rpcDone false true)) (s.begin ra ord).role = _
  generalize ((s.begin ra ord).onAppendEntries q).rpcDone false true = h at hp' hr ⊢
  generalize (s.begin ra ord).role = cur at hp' hr ⊢
  have same : h.role = cur → settle 6 (V β h) cur = V β (settle 6 h cur) := by
    intro hrole
    have e1 : settle 6 h cur = h := by unfold settle; rw [if_pos hrole]
    have e2 : settle 6 (V β h) cur = V β h := by unfold settle; rw [if_pos (show (V β h).role = cur from hrole)]
    rw [e1, e2]
  rcases hr with hrole | hf
  · exact same hrole
  · by_cases hrole : h.role = cur
    · exact same hrole
    · have hne : h.role ≠ cur := hrole
      have hne' : (V β h).role ≠ cur := hrole
      have e1 : settle 6 h cur = h.releaseRole cur := by
        cases LogRel.settle_shape 3 h cur hne with
        | follower _ e => exact e
        | leader x r _ _ => rw [hf] at r; cases r
        | cand r _ _ => rw [hf] at r; cases r
        | candLeader x r _ _ _ => rw [hf] at r; cases r
      have hf' : (V β h).role = .follower := hf
      have e2 : settle 6 (V β h) cur = (V β h).releaseRole cur := by
        cases LogRel.settle_shape 3 (V β h) cur hne' with
        | follower _ e => exact e
        | leader x r _ _ => rw [hf'] at r; cases r
        | cand r _ _ => rw [hf'] at r; cases r
        | candLeader x r _ _ _ => rw [hf'] at r; cases r
      rw [e1, e2, V_releaseRole]

end SnapInstV
end Raft
