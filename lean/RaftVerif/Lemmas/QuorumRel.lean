/-
Quorum intersection ACROSS a single-server membership change.

`C01.quorums_intersect` says that two majorities of ONE voter set share a member. The code changes the voter set by at
most one node per configuration (`C08Step.OneChange.adjacent`, `C08.AdjacentVoters`); this file provides the version
of the pigeonhole argument that the single-server-change argument needs:

* `AdjLists V V'` — the lists have the same members except possibly for ONE id (`V' = V`, `V' = V + a`, `V' = V - a`;
  it also covers the replacement of no one: the exceptional id may be a member of both or of neither);
* `adjacent_quorums_intersect` — a duplicate-free majority of `V` and a duplicate-free majority of `V'` share a member;
* `Config` versions: `mem_voters_iff` (with distinct member ids, `id ∈ voters ↔ isVoter id`), `voters_nodup`,
  `adjLists_of_adjacentVoters`, `adjacent_config_quorums_intersect`;
* `election_safety_adjacent`: two candidates of one term, each backed (`C01.Backed`) by a majority of grants of the
  voters of its own configuration, the two configurations adjacent (or equal), grants unique per (voter, term): the
  same node.
-/
import RaftVerif.Props.C01Sys
import RaftVerif.Props.C08

namespace Raft
namespace QuorumRel

/-- a duplicate-free list whose members all belong to `l'` is not longer than `l'` -/
theorem nodup_subset_length : ∀ (l l' : List Nat), l.Nodup → (∀ x ∈ l, x ∈ l') → l.length ≤ l'.length
  | [], _, _, _ => Nat.zero_le _
  | a :: t, l', hnd, hsub => by
    have ha : a ∈ l' := hsub a (List.mem_cons_self ..)
    have hat : a ∉ t := (List.nodup_cons.mp hnd).1
    have ht : t.Nodup := (List.nodup_cons.mp hnd).2
    have hsub' : ∀ x ∈ t, x ∈ l'.erase a := by
      intro x hx
      have hne : x ≠ a := fun e => hat (e ▸ hx)
      exact (List.mem_erase_of_ne hne).mpr (hsub x (List.mem_cons_of_mem _ hx))
    have ih := nodup_subset_length t (l'.erase a) ht hsub'
    rw [List.length_erase_of_mem ha] at ih
    have : l'.length ≥ 1 := List.length_pos_of_mem ha
    simp only [List.length_cons]
    omega

/-- **adjacent voter lists**: the same members, except possibly for one id `a` -/
def AdjLists (V V' : List Nat) : Prop := ∃ a, ∀ x, x ≠ a → (x ∈ V ↔ x ∈ V')

theorem AdjLists.refl (V : List Nat) : AdjLists V V := ⟨0, fun _ _ => Iff.rfl⟩

theorem AdjLists.symm {V V' : List Nat} (h : AdjLists V V') : AdjLists V' V := by
  obtain ⟨a, h⟩ := h
  exact ⟨a, fun x hx => (h x hx).symm⟩

/-- lists with the same members are adjacent -/
theorem AdjLists.of_same {V V' : List Nat} (h : ∀ x, x ∈ V ↔ x ∈ V') : AdjLists V V' := ⟨0, fun x _ => h x⟩

/-- adding one id -/
theorem AdjLists.cons (V : List Nat) (a : Nat) : AdjLists V (a :: V) :=
  ⟨a, fun x hx => ⟨fun h => List.mem_cons_of_mem _ h, fun h => by
    rcases List.mem_cons.mp h with e | e
    · exact absurd e hx
    · exact e⟩⟩

/-- removing one id -/
theorem AdjLists.erase (V : List Nat) (a : Nat) : AdjLists V (V.erase a) :=
  ⟨a, fun _ hx => ⟨fun h => (List.mem_erase_of_ne hx).mpr h, fun h => List.mem_of_mem_erase h⟩⟩

/-- the case in which the exceptional id is not in the first quorum -/
theorem adjacent_quorums_aux (V V' Q Q' : List Nat) (a : Nat) (hV : V.Nodup) (hQ : Q.Nodup)
    (hQ' : Q'.Nodup) (hadj : ∀ x, x ≠ a → (x ∈ V ↔ x ∈ V')) (hq : ∀ x ∈ Q, x ∈ V) (hq' : ∀ x ∈ Q', x ∈ V')
    (h1 : 2 * Q.length > V.length) (h2 : 2 * Q'.length > V'.length) (ha : a ∉ Q) : ∃ x, x ∈ Q ∧ x ∈ Q' := by
  -- everything happens inside `W = V - a`
  have hW : (V.erase a).Nodup := hV.erase a
  have memW : ∀ x, x ∈ V.erase a ↔ x ≠ a ∧ x ∈ V := fun x => hV.mem_erase_iff
  have hqW : ∀ x ∈ Q, x ∈ V.erase a := fun x hx => (memW x).mpr ⟨fun e => ha (e ▸ hx), hq x hx⟩
  have hq'W : ∀ x ∈ Q'.erase a, x ∈ V.erase a := by
    intro x hx
    have := hQ'.mem_erase_iff.mp hx
    exact (memW x).mpr ⟨this.1, (hadj x this.1).mpr (hq' x this.2)⟩
  have hWV : (V.erase a).length ≤ V.length := List.length_erase_le
  have hWV' : (V.erase a).length ≤ V'.length :=
    nodup_subset_length _ _ hW (fun x hx => (hadj x ((memW x).mp hx).1).mp ((memW x).mp hx).2)
  have hlen : Q.length + (Q'.erase a).length > (V.erase a).length := by
    by_cases ha' : a ∈ Q'
    · -- then `a ∈ V'`, so `W` is strictly smaller than `V'`
      have haV' : a ∈ V' := hq' a ha'
      have hlt : (V.erase a).length ≤ (V'.erase a).length :=
        nodup_subset_length _ _ hW (fun x hx =>
          (List.mem_erase_of_ne ((memW x).mp hx).1).mpr ((hadj x ((memW x).mp hx).1).mp ((memW x).mp hx).2))
      rw [List.length_erase_of_mem haV'] at hlt
      rw [List.length_erase_of_mem ha']
      have : V'.length ≥ 1 := List.length_pos_of_mem haV'
      have : Q'.length ≥ 1 := List.length_pos_of_mem ha'
      omega
    · rw [List.erase_of_not_mem ha']
      omega
  obtain ⟨x, hx, hx'⟩ := C01.quorums_intersect (V.erase a) Q (Q'.erase a) hW hQ (hQ'.erase a) hqW hq'W hlen
  exact ⟨x, hx, List.mem_of_mem_erase hx'⟩

/-- **majorities of adjacent voter sets intersect**: if `V'` has the members of `V` except possibly for one id
(one voter added, one removed, or none), every duplicate-free majority `Q` of `V` and every duplicate-free majority
`Q'` of `V'` share a member. (No bound on the sizes; `V`, `V'` duplicate-free.) -/
theorem adjacent_quorums_intersect (V V' Q Q' : List Nat) (hV : V.Nodup) (hV' : V'.Nodup) (hQ : Q.Nodup)
    (hQ' : Q'.Nodup) (hadj : AdjLists V V') (hq : ∀ x ∈ Q, x ∈ V) (hq' : ∀ x ∈ Q', x ∈ V')
    (h1 : 2 * Q.length > V.length) (h2 : 2 * Q'.length > V'.length) : ∃ x, x ∈ Q ∧ x ∈ Q' := by
  obtain ⟨a, hadj⟩ := hadj
  by_cases ha : a ∈ Q
  · by_cases ha' : a ∈ Q'
    · exact ⟨a, ha, ha'⟩
    · obtain ⟨x, hx', hx⟩ := adjacent_quorums_aux V' V Q' Q a hV' hQ' hQ (fun x hx => (hadj x hx).symm) hq' hq h2 h1 ha'
      exact ⟨x, hx, hx'⟩
  · exact adjacent_quorums_aux V V' Q Q' a hV hQ hQ' hadj hq hq' h1 h2 ha

/-- EXAMPLE: `{1,2,3}` and `{1,2,3,4}` are adjacent; the majorities `{2,3}` and `{1,3,4}` share node 3 -/
example : ∃ x, x ∈ [2, 3] ∧ x ∈ [1, 3, 4] :=
  adjacent_quorums_intersect [1, 2, 3] [4, 1, 2, 3] [2, 3] [1, 3, 4] (by decide) (by decide) (by decide) (by decide)
    (AdjLists.cons [1, 2, 3] 4) (by decide) (by decide) (by decide) (by decide)

/-- EXAMPLE (necessity of adjacency): `{1,2}` and `{1,2,4,5}`… are two ids apart from `{1,2,4}` and `{1,2,5}`;
the majorities `{1,4}` of `{1,2,4}` and `{2,5}` of `{1,2,5}` are disjoint — the classic reason why the next
configuration may only be introduced when the previous one is committed. -/
example : ¬ ∃ x, x ∈ [1, 4] ∧ x ∈ [2, 5] := by decide

/-! ### configurations -/

theorem find?_some_of_mem_nodup {nodes : List CNode} (h : (nodes.map (·.id)).Nodup) {n : CNode} (hn : n ∈ nodes) :
    nodes.find? (·.id == n.id) = some n := by
  induction nodes with
  | nil => cases hn
  | cons m ms ih =>
    simp only [List.map_cons, List.nodup_cons] at h
    rcases List.mem_cons.mp hn with e | e
    · subst e; simp [List.find?]
    · have hne : m.id ≠ n.id := fun he => h.1 (he ▸ List.mem_map.mpr ⟨n, e, rfl⟩)
      simp only [List.find?]
      have : (m.id == n.id) = false := by simpa using hne
      rw [this]
      exact ih h.2 e

/-- with distinct member ids, the list `voters` holds exactly the ids for which `isVoter` answers yes -/
theorem mem_voters_iff (c : Config) (h : c.ids.Nodup) (id : Nat) : id ∈ c.voters ↔ c.isVoter id = true := by
  constructor
  · intro hm
    unfold Config.voters at hm
    obtain ⟨n, hn, hid⟩ := List.mem_map.mp hm
    obtain ⟨hn1, hn2⟩ := List.mem_filter.mp hn
    have := find?_some_of_mem_nodup h hn1
    unfold Config.isVoter Config.find?
    rw [← hid, this]
    exact hn2
  · exact C01Sys.isVoter_mem_voters c id

theorem voters_nodup (c : Config) (h : c.ids.Nodup) : c.voters.Nodup := by
  unfold Config.voters
  unfold Config.ids at h
  exact (List.filter_sublist.map _).nodup h

/-- voting rights that agree except at one id (`C08.AdjacentVoters`, what one action of the leader produces) give
adjacent voter lists -/
theorem adjLists_of_adjacentVoters (c c' : Config) (h : c.ids.Nodup) (h' : c'.ids.Nodup)
    (hadj : C08.AdjacentVoters c c') : AdjLists c.voters c'.voters := by
  obtain ⟨a, ha⟩ := hadj
  refine ⟨a, fun x hx => ?_⟩
  rw [mem_voters_iff c h, mem_voters_iff c' h', ha x hx]

/-- **majorities of adjacent configurations intersect** -/
theorem adjacent_config_quorums_intersect (c c' : Config) (h : c.ids.Nodup) (h' : c'.ids.Nodup)
    (hadj : C08.AdjacentVoters c c') (Q Q' : List Nat) (hQ : Q.Nodup) (hQ' : Q'.Nodup)
    (hq : ∀ x ∈ Q, c.isVoter x = true) (hq' : ∀ x ∈ Q', c'.isVoter x = true)
    (h1 : 2 * Q.length > c.voters.length) (h2 : 2 * Q'.length > c'.voters.length) : ∃ x, x ∈ Q ∧ x ∈ Q' :=
  adjacent_quorums_intersect c.voters c'.voters Q Q' (voters_nodup c h) (voters_nodup c' h') hQ hQ'
    (adjLists_of_adjacentVoters c c' h h' hadj) (fun x hx => (mem_voters_iff c h x).mpr (hq x hx))
    (fun x hx => (mem_voters_iff c' h' x).mpr (hq' x hx)) h1 h2

/-- **election safety from vote uniqueness and quorums of ADJACENT voter sets**: if grants are unique per
(voter, term) and two nodes are each backed by a majority of grants — `l` of the voter set `V`, `l'` of the adjacent
voter set `V'` — in the same term, they are the same node. -/
theorem election_safety_adjacent (G : List C01.Grant) (V V' : List Nat) (hV : V.Nodup) (hV' : V'.Nodup)
    (hadj : AdjLists V V')
    (huniq : ∀ a ∈ G, ∀ b ∈ G, a.voter = b.voter → a.term = b.term → a.cand = b.cand)
    (l l' T : Nat) (hl : C01.Backed G V l T) (hl' : C01.Backed G V' l' T) : l = l' := by
  obtain ⟨Q, hQ, hs, hlen, hg⟩ := hl
  obtain ⟨Q', hQ', hs', hlen', hg'⟩ := hl'
  obtain ⟨v, hv, hv'⟩ := adjacent_quorums_intersect V V' Q Q' hV hV' hQ hQ' hadj hs hs' hlen hlen'
  exact huniq _ (hg v hv) _ (hg' v hv') rfl rfl

end QuorumRel
end Raft

#print axioms Raft.QuorumRel.adjacent_quorums_intersect
#print axioms Raft.QuorumRel.adjacent_config_quorums_intersect
#print axioms Raft.QuorumRel.election_safety_adjacent
