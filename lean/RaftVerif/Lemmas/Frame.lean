/-
Frame lemma for the mutually recursive leader handlers (storeEntry … onMajorityCommit):
any projection of the node state that every primitive operation used by those handlers leaves
unchanged is left unchanged by the handlers themselves.
-/
import RaftVerif.Model.Step

namespace Raft
namespace Node

/-- `proj` is untouched by every primitive state update the leader handlers are built from. -/
structure Frame {α : Type} (proj : Node → α) : Prop where
  panic : ∀ s site, proj (s.panic site) = proj s
  reply : ∀ s t r, proj (s.reply t r) = proj s
  point : ∀ s n, proj (s.point n) = proj s
  ldr : ∀ (s : Node) l, proj (s.withLdr l) = proj s
  log : ∀ (s : Node) l i t, proj { s with log := l, lastLogIndex := i, lastLogTerm := t } = proj s
  logOnly : ∀ (s : Node) l, proj { s with log := l } = proj s
  fsm : ∀ (s : Node) f, proj (s.withFsm f) = proj s
  configs : ∀ (s : Node) c, proj { s with configs := c } = proj s
  commitIndex : ∀ (s : Node) c, proj (s.withCommitIndex c) = proj s
  leader : ∀ (s : Node) c, proj (s.setLeader c) = proj s
  role : ∀ (s : Node) c, proj (s.setRole c) = proj s
  closed : ∀ (s : Node) c, proj { s with closed := c } = proj s
  popOrder : ∀ (s : Node), proj s.popOrder = proj s

end Node
end Raft

namespace Raft
namespace Node
namespace Frame

variable {α : Type} {proj : Node → α} (h : Frame proj)
include h

theorem assert_eq (s : Node) (b : Bool) (site : String) : proj (s.assert b site) = proj s := by
  unfold Node.assert; split <;> simp [h.panic]

theorem appendEntry_eq (s : Node) (e : Entry) : proj (s.appendEntry e) = proj s := by
  unfold Node.appendEntry; simp only [h.log, h.assert_eq]

theorem commitLog_eq (s : Node) (n : Nat) : proj (s.commitLog n) = proj s := by
  unfold Node.commitLog; simp only [h.point, h.logOnly]

theorem setRepl_eq (s : Node) (r : Repl) : proj (s.setRepl r) = proj s := by
  unfold Node.setRepl; simp only [h.ldr]

theorem addReplication_eq (s : Node) (n : CNode) : proj (s.addReplication n) = proj s := by
  unfold Node.addReplication; simp only [h.setRepl_eq]; split <;> simp [h.panic, h.assert_eq]

theorem notifyFlr_eq (s : Node) : proj s.notifyFlr = proj s := by
  unfold Node.notifyFlr; split <;> try rfl
  split <;> simp [h.panic]

theorem beginFinishedRounds_eq (s : Node) : proj s.beginFinishedRounds = proj s := by
  unfold Node.beginFinishedRounds; simp only [h.ldr]

theorem fsmApplyLogTo_eq (s : Node) (n : Nat) : proj (s.fsmApplyLogTo n) = proj s := by
  unfold Node.fsmApplyLogTo
  split <;> try rfl
  split <;> try simp [h.panic]
  split <;> simp [h.panic, h.fsm] <;> split <;> simp [h.panic]

theorem fsmApplyItems_eq (s : Node) (qs : List QItem) : proj (s.fsmApplyItems qs) = proj s := by
  induction qs generalizing s with
  | nil => rfl
  | cons q qs ih =>
    unfold Node.fsmApplyItems
    simp only [ih, h.reply]
    repeat' split
    all_goals simp [h.fsm, h.assert_eq]

theorem fsmApply_eq (s : Node) (qs : List QItem) : proj (s.fsmApply qs) = proj s := by
  unfold Node.fsmApply
  split <;> try simp [h.panic]
  split <;> try simp [h.panic]
  simp [h.assert_eq, h.fsmApplyItems_eq, h.fsmApplyLogTo_eq]

theorem applyCommittedL_eq (s : Node) : proj s.applyCommittedL = proj s := by
  unfold Node.applyCommittedL; simp only [h.fsmApply_eq, h.ldr]

theorem changeConfigR_eq (s : Node) (c : Config) : proj (s.changeConfigR c) = proj s := by
  unfold Node.changeConfigR; simp only [h.configs]; split <;> simp [h.leader]

theorem commitConfig_eq (s : Node) : proj s.commitConfig = proj s := by
  unfold Node.commitConfig; simp only [h.configs]; split <;> simp [h.leader]

theorem doClose_eq (s : Node) (r : String) : proj (s.doClose r) = proj s := by
  unfold Node.doClose; split <;> simp [h.closed]

theorem afterConfigCommit_eq (s : Node) : proj s.afterConfigCommit = proj s := by
  unfold Node.afterConfigCommit Node.closeIfRemoved Node.stepDownIfNotVoter
  split <;> split <;> simp [h.doClose_eq, h.leader, h.role]

theorem setCommitIndexR_eq (s : Node) (i : Nat) : proj (s.setCommitIndexR i).1 = proj s := by
  unfold Node.setCommitIndexR
  split
  · simp [h.afterConfigCommit_eq, h.commitConfig_eq, h.commitIndex]
  · simp [h.commitIndex]

omit h in
theorem foldl_eq {β : Type} (f : Node → β → Node) (hf : ∀ s x, proj (f s x) = proj s)
    (xs : List β) (s : Node) : proj (xs.foldl f s) = proj s := by
  induction xs generalizing s with
  | nil => rfl
  | cons x xs ih => simp only [List.foldl_cons, ih, hf]

/-- The frame property of the whole leader block, by induction on the recursion budget. -/
theorem block : ∀ fuel : Nat,
    (∀ s b, proj (storeEntry fuel s b) = proj s) ∧
    (∀ s b, proj (storeItems fuel s b) = proj s) ∧
    (∀ s c, proj (changeConfigL fuel s c) = proj s) ∧
    (∀ s t c, proj (doChangeConfig fuel s t c) = proj s) ∧
    (∀ s t c, proj (checkConfigActions fuel s t c) = proj s) ∧
    (∀ s t c id, proj (checkConfigAction fuel s t c id) = proj s) ∧
    (∀ s i, proj (setCommitIndexL fuel s i) = proj s) ∧
    (∀ s, proj (onMajorityCommit fuel s) = proj s) := by
  intro fuel
  induction fuel with
  | zero =>
    refine ⟨?_, ?_, ?_, ?_, ?_, ?_, ?_, ?_⟩ <;> intros <;> (try unfold storeItems) <;>
      (try unfold storeEntry) <;> (try unfold changeConfigL) <;> (try unfold doChangeConfig) <;>
      (try unfold checkConfigActions) <;> (try unfold checkConfigAction) <;>
      (try unfold setCommitIndexL) <;> (try unfold onMajorityCommit) <;>
      (try split) <;> simp [h.panic]
  | succ n ih =>
    obtain ⟨ihSE, ihSI, ihCL, ihDC, ihCAs, ihCA, ihSC, ihMC⟩ := ih
    refine ⟨?_, ?_, ?_, ?_, ?_, ?_, ?_, ?_⟩
    · -- storeEntry
      intro s b
      unfold storeEntry; dsimp only
      repeat' split
      all_goals simp [ihSI, ihMC, h.applyCommittedL_eq, h.notifyFlr_eq, h.beginFinishedRounds_eq]
    · -- storeItems
      intro s b
      cases b with
      | nil => unfold storeItems; rfl
      | cons q qs =>
        unfold storeItems; dsimp only
        rw [ihSI]
        repeat' split
        all_goals simp [ihCL, h.reply, h.panic, h.appendEntry_eq, h.ldr]
    · -- changeConfigL
      intro s c
      unfold changeConfigL; dsimp only
      rw [ihCAs, foldl_eq (proj := proj)]
      · simp [h.ldr, h.changeConfigR_eq]
      · intro s x; repeat' split
        all_goals simp [h.addReplication_eq, h.setRepl_eq]
    · -- doChangeConfig
      intro s t c
      unfold doChangeConfig; rw [ihSE]
    · -- checkConfigActions
      intro s t c
      unfold checkConfigActions; dsimp only
      rw [foldl_eq (proj := proj)]
      · repeat' split
        all_goals simp [ihDC, h.panic, h.popOrder]
      · intro s x; split <;> simp [ihCA]
    · -- checkConfigAction
      intro s t c id
      unfold checkConfigAction; dsimp only
      repeat' split
      all_goals simp [ihDC, h.setRepl_eq]
    · -- setCommitIndexL
      intro s i
      unfold setCommitIndexL
      extract_lets s1 ready r s2 s3
      have e2 : proj s2 = proj s := by
        unfold s2 r s1; rw [h.setCommitIndexR_eq, h.commitLog_eq]
      have e3 : proj s3 = proj s := by
        unfold s3; split
        · rw [ihCAs, e2]
        · exact e2
      split
      · split
        · rw [h.ldr, foldl_eq (proj := proj) _ (fun s t => h.reply _ _ _), e3]
        · rw [ihCAs, e3]
      · exact e3
    · -- onMajorityCommit
      intro s
      unfold onMajorityCommit; dsimp only
      repeat' split
      all_goals simp [ihSC, h.notifyFlr_eq, h.applyCommittedL_eq, h.panic]

end Frame

/-- A projection additionally untouched by the candidate bookkeeping: it survives the role transitions
(`release`/`init`) that follow a handler. -/
structure FrameS {α : Type} (proj : Node → α) : Prop extends Frame proj where
  votesNeeded : ∀ (s : Node) v, proj (s.withVotesNeeded v) = proj s
  candTransfer : ∀ (s : Node) v, proj (s.withCandTransfer v) = proj s
  setVotedFor : ∀ (s : Node) t c, proj (s.setVotedFor t c) = proj s

namespace FrameS
variable {α : Type} {proj : Node → α} (h : FrameS proj)
include h

theorem leaderRelease_eq (s : Node) : proj s.leaderRelease = proj s := by
  unfold Node.leaderRelease Node.leaderReleaseRest
  dsimp only
  rw [h.ldr, Frame.foldl_eq (proj := proj) _ (fun s t => h.reply _ _ _),
    Frame.foldl_eq (proj := proj) _ (fun s t => h.reply _ _ _)]
  unfold Node.transferReply
  repeat' split
  all_goals simp [h.leader, h.ldr, h.reply]

theorem leaderInit_eq (s : Node) : proj s.leaderInit = proj s := by
  unfold Node.leaderInit
  dsimp only
  rw [(h.toFrame.block _).1, (h.toFrame.block _).2.2.2.2.1, Frame.foldl_eq (proj := proj)]
  · rw [h.ldr, h.toFrame.assert_eq]
  · intro s x; split <;> simp [h.toFrame.addReplication_eq]

theorem startElection_eq (s : Node) : proj s.startElection = proj s := by
  unfold Node.startElection
  dsimp only
  split <;> simp [h.leader, h.role, h.votesNeeded, h.setVotedFor, h.toFrame.assert_eq]

theorem settle_eq (f : Nat) (s : Node) (c : Role) : proj (settle f s c) = proj s := by
  induction f generalizing s c with
  | zero => rfl
  | succ n ih =>
    unfold settle
    split
    · rfl
    · rw [ih]
      unfold Node.initRole Node.releaseRole
      repeat' split
      all_goals simp [h.leaderInit_eq, h.leaderRelease_eq, h.startElection_eq, h.candTransfer]

end FrameS
end Node
end Raft
