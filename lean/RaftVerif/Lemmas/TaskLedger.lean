/-
Helper lemmas for Props/C15Tasks: the ledger of client tasks of one node.

A task is a non-zero `Nat` id. It is *answered* when a `Reply` with its id is appended to `replies`, and it is
*pending* while it waits in one of: the leader queue (`ldr.queue`), the wait list (`ldr.waitStable`), the transfer
in progress (`ldr.transfer.task`), the snapshot request (`snapPending`) or the undelivered snapshot result
(`snapResult`).  For a fixed id `t`, `led t s` counts the occurrences of `t` among the answers and the pending
places of `s`.

* `Rel t k s s'`: going from `s` to `s'` no recorded failure was cleared, and unless `s'` has failed the count of
  `t` grew by exactly `k`; the structural invariant `OK` (an idle transfer carries no task; not both a snapshot
  request and an undelivered result) is kept.  `Rel` composes (`Rel.trans`).
* `FK s s'`: a *frame* step: none of the ledger fields changed (and no failure was cleared).
* `block`: the mutually recursive leader block, by induction on the fuel.  The only place where the count is not
  determined by the inputs is `checkConfigActions`/`checkConfigAction`, which may hand the SAME task to
  `doChangeConfig` several times (once per configuration change they start): there the count grows by `m`
  times the indicator of the task, `m` = the number of changes started with the task.
* `handle_rel_m`, `settle_rel`, `step_rel_m`, `step_rel`: every operation (`m + 1` = the number of entries a leader's
  ChangeConfig task is attached to, as a parameter / existentially).
* `step_rel_stable` (`m = 0` for a request without actions) and, last section, `step_rel_two` (`m = 0` when every
  configuration the request can lead to has two anchors: `dc_blk`, `ca_once`, `cas_once`, `onChangeConfig_two_rel`).
-/
import RaftVerif.Lemmas.LeaderCache
import RaftVerif.Lemmas.NoPanic

namespace Raft
namespace Node
namespace TL

/-! ### the ledger -/

/-- 1 if `a` is the task `t` -/
def ind (a t : Nat) : Nat := if a = t then 1 else 0

/-- the task of an optional snapshot request / result -/
def optCount {α : Type} (f : α → Nat) (o : Option α) (t : Nat) : Nat :=
  match o with
  | some x => ind (f x) t
  | none => 0

/-- occurrences of `t` among the answers of this step -/
def cA (t : Nat) (s : Node) : Nat := (s.replies.map (·.task)).count t
/-- … in the leader queue -/
def cQ (t : Nat) (s : Node) : Nat := (s.ldr.queue.map (·.task)).count t
/-- … in the wait list -/
def cW (t : Nat) (s : Node) : Nat := s.ldr.waitStable.count t
/-- … as the transfer task -/
def cT (t : Nat) (s : Node) : Nat := ind s.ldr.transfer.task t
/-- … as the snapshot request -/
def cP (t : Nat) (s : Node) : Nat := optCount (·.task) s.snapPending t
/-- … as the undelivered snapshot result -/
def cR (t : Nat) (s : Node) : Nat := optCount (·.task) s.snapResult t

/-- occurrences of `t` among the pending places -/
def pendCount (t : Nat) (s : Node) : Nat := cQ t s + cW t s + cT t s + cP t s + cR t s

/-- occurrences of `t` among answers and pending places -/
def led (t : Nat) (s : Node) : Nat := cA t s + pendCount t s

/-- the fields the ledger reads -/
def key (s : Node) :=
  (s.replies, s.ldr.queue, s.ldr.waitStable, s.ldr.transfer.task, s.ldr.transfer.active, s.snapPending, s.snapResult)

/-- the leader part of the ledger -/
def ldrKey (s : Node) := (s.ldr.queue, s.ldr.waitStable, s.ldr.transfer.task, s.ldr.transfer.active)

theorem key_eq {s s' : Node} (h : key s' = key s) :
    s'.replies = s.replies ∧ s'.ldr.queue = s.ldr.queue ∧ s'.ldr.waitStable = s.ldr.waitStable ∧
    s'.ldr.transfer.task = s.ldr.transfer.task ∧ s'.ldr.transfer.active = s.ldr.transfer.active ∧
    s'.snapPending = s.snapPending ∧ s'.snapResult = s.snapResult := by
  unfold key at h
  simp only [Prod.mk.injEq] at h
  exact h

theorem ldrKey_of_key {s s' : Node} (h : key s' = key s) : ldrKey s' = ldrKey s := by
  obtain ⟨_, a, b, c, d, _, _⟩ := key_eq h
  unfold ldrKey; rw [a, b, c, d]

theorem led_congr {s s' : Node} (t : Nat) (h : key s' = key s) : led t s' = led t s := by
  obtain ⟨a, b, c, d, _, e, f⟩ := key_eq h
  unfold led pendCount cA cQ cW cT cP cR
  rw [a, b, c, d, e, f]

/-- an idle transfer carries no task -/
def TransOK (s : Node) : Prop := s.ldr.transfer.active = false → s.ldr.transfer.task = 0
/-- a snapshot request and an undelivered result never coexist -/
def SnapOK (s : Node) : Prop := s.snapPending = none ∨ s.snapResult = none
/-- the structural part of the ledger invariant -/
def OK (s : Node) : Prop := TransOK s ∧ SnapOK s
/-- nothing waits in the leader places -/
def Quiet (s : Node) : Prop := s.ldr.queue = [] ∧ s.ldr.waitStable = [] ∧ s.ldr.transfer.task = 0

instance (s : Node) : Decidable (OK s) := by unfold OK TransOK SnapOK; infer_instance
instance (s : Node) : Decidable (Quiet s) := by unfold Quiet; infer_instance

theorem OK.congr {s s' : Node} (h : OK s) (e : key s' = key s) : OK s' := by
  obtain ⟨_, _, _, c, d, e, f⟩ := key_eq e
  unfold OK TransOK SnapOK at *
  rw [c, d, e, f]; exact h

theorem Quiet.congr {s s' : Node} (h : Quiet s) (e : ldrKey s' = ldrKey s) : Quiet s' := by
  unfold ldrKey at e
  simp only [Prod.mk.injEq] at e
  unfold Quiet at *
  rw [e.1, e.2.1, e.2.2.1]; exact h

/-! ### the two relations -/

/-- see the file header -/
structure Rel (t k : Nat) (s s' : Node) : Prop where
  mono : s.panicked ≠ none → s'.panicked ≠ none
  cnt : s'.panicked = none → led t s' = led t s + k
  ok : OK s → OK s'

/-- a frame step: the ledger fields are untouched, no failure is cleared -/
structure FK (s s' : Node) : Prop where
  same : key s' = key s
  mono : s.panicked ≠ none → s'.panicked ≠ none

theorem Rel.refl (t : Nat) (s : Node) : Rel t 0 s s := ⟨id, fun _ => rfl, id⟩

theorem Rel.trans {t k₁ k₂ : Nat} {s s' s'' : Node} (h₁ : Rel t k₁ s s') (h₂ : Rel t k₂ s' s'') :
    Rel t (k₁ + k₂) s s'' := by
  refine ⟨fun h => h₂.mono (h₁.mono h), fun h => ?_, fun h => h₂.ok (h₁.ok h)⟩
  have h' : s'.panicked = none := by
    cases hp : s'.panicked with
    | none => rfl
    | some x => exact absurd h (h₂.mono (by rw [hp]; exact fun e => by cases e))
  rw [h₂.cnt h, h₁.cnt h']; omega

/-- composition with the total stated separately -/
theorem Rel.trans' {t k₁ k₂ k : Nat} {s s' s'' : Node} (h₁ : Rel t k₁ s s') (h₂ : Rel t k₂ s' s'') (e : k = k₁ + k₂) :
    Rel t k s s'' := e ▸ h₁.trans h₂

theorem Rel.cast {t k k' : Nat} {s s' : Node} (h : Rel t k s s') (e : k' = k) : Rel t k' s s' := e ▸ h

theorem FK.refl (s : Node) : FK s s := ⟨rfl, id⟩

theorem FK.trans {s s' s'' : Node} (h₁ : FK s s') (h₂ : FK s' s'') : FK s s'' :=
  ⟨h₂.same.trans h₁.same, fun h => h₂.mono (h₁.mono h)⟩

theorem FK.rel {s s' : Node} (h : FK s s') (t : Nat) : Rel t 0 s s' :=
  ⟨h.mono, fun _ => by rw [led_congr t h.same, Nat.add_zero], fun o => o.congr h.same⟩

theorem FK.ldrKey {s s' : Node} (h : FK s s') : ldrKey s' = ldrKey s := ldrKey_of_key h.same

/-- a frame step after a counted one -/
theorem Rel.fk {t k : Nat} {s s' s'' : Node} (h₁ : Rel t k s s') (h₂ : FK s' s'') : Rel t k s s'' :=
  (h₁.trans (h₂.rel t)).cast rfl

/-- a frame step before a counted one -/
theorem FK.then {t k : Nat} {s s' s'' : Node} (h₁ : FK s s') (h₂ : Rel t k s' s'') : Rel t k s s'' :=
  ((h₁.rel t).trans h₂).cast (by omega)

/-- same state up to fields the ledger does not read, same failure flag -/
theorem FK.of_eq {s s' : Node} (h : key s' = key s) (hp : s'.panicked = s.panicked) : FK s s' :=
  ⟨h, fun hn => by rw [hp]; exact hn⟩

/-! ### frame primitives -/

theorem fk_panic (s : Node) (site : String) : FK s (s.panic site) :=
  ⟨by unfold Node.panic; split <;> rfl, fun _ => panic_panicked_ne s site⟩

theorem fk_assert (s : Node) (b : Bool) (site : String) : FK s (s.assert b site) := by
  unfold Node.assert; split
  · exact FK.refl s
  · exact fk_panic s site

theorem fk_point (s : Node) (n : String) : FK s (s.point n) := FK.of_eq rfl rfl
theorem fk_popOrder (s : Node) : FK s s.popOrder := FK.of_eq rfl rfl
theorem fk_withFsm (s : Node) (f : Fsm) : FK s (s.withFsm f) := FK.of_eq rfl rfl
theorem fk_ret (s : Node) (r : Nat) : FK s (s.ret r) := FK.of_eq rfl rfl
theorem fk_setRole (s : Node) (r : Role) : FK s (s.setRole r) := FK.of_eq rfl rfl
theorem fk_setLeader (s : Node) (l : Nat) : FK s (s.setLeader l) := FK.of_eq rfl rfl
theorem fk_withRpcReply (s : Node) (r : Option RpcReply) : FK s (s.withRpcReply r) := FK.of_eq rfl rfl
theorem fk_withVotesNeeded (s : Node) (v : Int) : FK s (s.withVotesNeeded v) := FK.of_eq rfl rfl
theorem fk_withCandTransfer (s : Node) (v : Bool) : FK s (s.withCandTransfer v) := FK.of_eq rfl rfl
theorem fk_withCommitIndex (s : Node) (i : Nat) : FK s (s.withCommitIndex i) := FK.of_eq rfl rfl
theorem fk_withLast (s : Node) (i t : Nat) : FK s (s.withLast i t) := FK.of_eq rfl rfl
theorem fk_revertConfig (s : Node) : FK s s.revertConfig := FK.of_eq rfl rfl
theorem fk_publishSnapshot (s : Node) (f : SnapFile) : FK s (s.publishSnapshot f) := FK.of_eq rfl rfl
theorem fk_commitLog (s : Node) (n : Nat) : FK s (s.commitLog n) := FK.of_eq rfl rfl
theorem fk_removeGTE (s : Node) (i p : Nat) : FK s (s.removeGTE i p) := FK.of_eq rfl rfl
theorem fk_compactLog (s : Node) (i : Nat) : FK s (s.compactLog i) := FK.of_eq rfl rfl
theorem fk_clearLog (s : Node) : FK s s.clearLog := FK.of_eq rfl rfl

/-- a new `Leader` record with the same ledger part -/
theorem fk_withLdr (s : Node) (l : Leader) (h1 : l.queue = s.ldr.queue) (h2 : l.waitStable = s.ldr.waitStable)
    (h3 : l.transfer.task = s.ldr.transfer.task) (h4 : l.transfer.active = s.ldr.transfer.active) :
    FK s (s.withLdr l) := by
  refine FK.of_eq ?_ rfl
  unfold key Node.withLdr
  dsimp only
  rw [h1, h2, h3, h4]

theorem fk_doClose (s : Node) (r : String) : FK s (s.doClose r) := by
  unfold Node.doClose; split
  · exact FK.refl s
  · exact FK.of_eq rfl rfl

theorem fk_storeTermVote (s : Node) (t c : Nat) : FK s (s.storeTermVote t c) := by
  unfold Node.storeTermVote Node.point; dsimp only; split <;> exact FK.of_eq rfl rfl

theorem fk_setTerm (s : Node) (t : Nat) : FK s (s.setTerm t) := by
  unfold Node.setTerm; split
  · split
    · exact fk_storeTermVote s t 0
    · exact fk_panic s _
  · exact FK.refl s

theorem fk_setVotedFor (s : Node) (t c : Nat) : FK s (s.setVotedFor t c) := by
  unfold Node.setVotedFor; split
  · split
    · exact fk_storeTermVote s t c
    · exact fk_panic s _
  · exact FK.refl s

theorem fk_appendEntry (s : Node) (e : Entry) : FK s (s.appendEntry e) := by
  unfold Node.appendEntry
  exact (fk_assert s _ _).trans (FK.of_eq rfl rfl)

theorem fk_changeConfigR (s : Node) (c : Config) : FK s (s.changeConfigR c) := by
  unfold Node.changeConfigR; dsimp only; split <;> exact FK.of_eq rfl rfl

theorem fk_commitConfig (s : Node) : FK s s.commitConfig := by
  unfold Node.commitConfig; dsimp only; split <;> exact FK.of_eq rfl rfl

theorem fk_afterConfigCommit (s : Node) : FK s s.afterConfigCommit := by
  unfold Node.afterConfigCommit Node.closeIfRemoved Node.stepDownIfNotVoter
  split <;> split
  · exact ((fk_setRole s _).trans (fk_setLeader _ _)).trans (fk_doClose _ _)
  · exact (fk_setRole s _).trans (fk_setLeader _ _)
  · exact fk_doClose _ _
  · exact FK.refl s

theorem fk_setCommitIndexR (s : Node) (i : Nat) : FK s (s.setCommitIndexR i).1 := by
  unfold Node.setCommitIndexR
  split
  · exact ((fk_withCommitIndex s i).trans (fk_commitConfig _)).trans (fk_afterConfigCommit _)
  · exact fk_withCommitIndex s i

theorem fk_setRepl (s : Node) (r : Repl) : FK s (s.setRepl r) := by
  unfold Node.setRepl; exact fk_withLdr s _ rfl rfl rfl rfl

theorem fk_addReplication (s : Node) (n : CNode) : FK s (s.addReplication n) := by
  unfold Node.addReplication
  dsimp only
  refine FK.trans ?_ (fk_setRepl _ _)
  split
  · exact fk_assert s _ _
  · exact (fk_assert s _ _).trans (fk_panic _ _)

theorem fk_notifyFlr (s : Node) : FK s s.notifyFlr := by
  unfold Node.notifyFlr; split
  · exact FK.refl s
  · split
    · exact FK.refl s
    · exact fk_panic s _

theorem fk_beginFinishedRounds (s : Node) : FK s s.beginFinishedRounds := by
  unfold Node.beginFinishedRounds; exact fk_withLdr s _ rfl rfl rfl rfl

theorem fk_fsmApplyLogTo (s : Node) (n : Nat) : FK s (s.fsmApplyLogTo n) := by
  unfold Node.fsmApplyLogTo
  split
  · exact FK.refl s
  · split
    · exact fk_panic s _
    · extract_lets es ups lastTerm cfg s1
      split
      · exact fk_panic s _
      · have h1 : FK s s1 := by unfold s1; split; exact fk_panic s _; exact FK.refl s
        exact h1.trans (fk_withFsm _ _)

theorem fk_foldl {β : Type} (f : Node → β → Node) (hf : ∀ s x, FK s (f s x)) (xs : List β) (s : Node) :
    FK s (xs.foldl f s) := by
  induction xs generalizing s with
  | nil => exact FK.refl s
  | cons x xs ih => exact (hf s x).trans (ih _)

theorem fk_fsmRestore (s : Node) : FK s s.fsmRestore := by
  unfold Node.fsmRestore
  split
  · exact fk_panic s _
  · split
    · exact fk_withFsm s _
    · exact fk_panic s _

theorem fk_checkQuorum (s : Node) : FK s s.checkQuorum := by
  unfold Node.checkQuorum
  extract_lets vs reachable s1
  have h1 : FK s s1 := by unfold s1; split; exact fk_panic s _; exact FK.refl s
  split
  · exact h1
  · exact h1.trans ((fk_setRole _ _).trans (fk_setLeader _ _))

theorem fk_checkLogCompact (s : Node) : FK s s.checkLogCompact := by
  unfold Node.checkLogCompact; split
  · exact FK.refl s
  · exact fk_compactLog s _

theorem fk_tryTransfer (s : Node) : FK s s.tryTransfer := by
  unfold Node.tryTransfer
  extract_lets r s1 s2
  have h1 : FK s s1 := by unfold s1; split; exact fk_popOrder s; exact FK.refl s
  have h2 : FK s s2 := by unfold s2; split; exact h1.trans (fk_panic _ _); exact h1
  split
  · exact h2.trans (fk_withLdr _ _ rfl rfl rfl rfl)
  · exact h2

/-! ### counted primitives -/

theorem count_singleton' (a t : Nat) : [a].count t = ind a t := by
  unfold ind
  simp only [List.count_cons, List.count_nil, Nat.zero_add, beq_iff_eq]

theorem led_reply (t : Nat) (s : Node) (task : Nat) (r : String) (ht : t ≠ 0) :
    led t (s.reply task r) = led t s + ind task t := by
  unfold Node.reply
  split
  · rename_i h0
    have : ind task t = 0 := by unfold ind; rw [if_neg (by omega)]
    rw [this]; rfl
  · unfold led cA
    show ((s.replies ++ [_]).map _).count t + pendCount t s = _
    rw [List.map_append, List.count_append]
    simp only [List.map_cons, List.map_nil, count_singleton']
    omega

theorem rel_reply (t : Nat) (ht : t ≠ 0) (s : Node) (task : Nat) (r : String) :
    Rel t (ind task t) s (s.reply task r) := by
  refine ⟨fun h => ?_, fun _ => led_reply t s task r ht, fun o => ?_⟩
  · rw [(reply_fields s task r).2.2.2.2.2.1]; exact h
  · have e : (s.reply task r).ldr = s.ldr ∧ (s.reply task r).snapPending = s.snapPending ∧
        (s.reply task r).snapResult = s.snapResult := by unfold Node.reply; split <;> exact ⟨rfl, rfl, rfl⟩
    unfold OK TransOK SnapOK at *
    rw [e.1, e.2.1, e.2.2]; exact o

/-- answering a list of tasks one after the other -/
theorem rel_foldl_reply {β : Type} (t : Nat) (ht : t ≠ 0) (f : β → Nat) (g : Node → β → String) (xs : List β) (s : Node) :
    Rel t ((xs.map f).count t) s (xs.foldl (fun s x => s.reply (f x) (g s x)) s) ∧
    (xs.foldl (fun s x => s.reply (f x) (g s x)) s).ldr = s.ldr := by
  induction xs generalizing s with
  | nil => exact ⟨Rel.refl t s, rfl⟩
  | cons x xs ih =>
    simp only [List.foldl_cons, List.map_cons, List.count_cons]
    obtain ⟨i1, i2⟩ := ih (s.reply (f x) (g s x))
    refine ⟨(rel_reply t ht s (f x) (g s x)).trans' i1 ?_, ?_⟩
    · unfold ind; simp only [beq_iff_eq]; omega
    · rw [i2]; exact (reply_fields s _ _).2.2.2.2.2.2.1

theorem ind_zero {t : Nat} (ht : t ≠ 0) : ind 0 t = 0 := by unfold ind; rw [if_neg (by omega)]

/-- a failed state satisfies every count -/
theorem rel_failed (t k : Nat) {s s' : Node} (h : FK s s') (hp : s'.panicked ≠ none) : Rel t k s s' :=
  ⟨h.mono, fun e => absurd e hp, fun o => o.congr h.same⟩

theorem rel_panic_any (t k : Nat) (s : Node) (site : String) : Rel t k s (s.panic site) :=
  rel_failed t k (fk_panic s site) (panic_panicked_ne s site)

/-- build `Rel` for a state that differs from `s` in the `Leader` record only -/
theorem rel_withLdr (t k : Nat) (s : Node) (l : Leader)
    (hc : (l.queue.map (·.task)).count t + l.waitStable.count t + ind l.transfer.task t =
          cQ t s + cW t s + cT t s + k)
    (ho : TransOK s → (l.transfer.active = false → l.transfer.task = 0)) : Rel t k s (s.withLdr l) := by
  refine ⟨id, fun _ => ?_, fun o => ⟨ho o.1, o.2⟩⟩
  show cA t s + ((l.queue.map (·.task)).count t + l.waitStable.count t + ind l.transfer.task t + cP t s + cR t s) = _
  unfold led pendCount
  omega

/-- `storeItems`: the entry joins the leader queue -/
theorem rel_enqueue (t : Nat) (s : Node) (q : QItem) :
    Rel t (ind q.task t) s (s.withLdr { s.ldr with queue := s.ldr.queue ++ [q] }) := by
  apply rel_withLdr
  · show ((s.ldr.queue ++ [q]).map (·.task)).count t + cW t s + cT t s = _
    rw [List.map_append, List.count_append]
    simp only [List.map_cons, List.map_nil, count_singleton']
    unfold cQ; omega
  · exact id

theorem fsmApplyItems_rel (t : Nat) (ht : t ≠ 0) (items : List QItem) (s : Node) :
    Rel t ((items.map (·.task)).count t) s (s.fsmApplyItems items) := by
  induction items generalizing s with
  | nil => exact Rel.refl t s
  | cons q qs ih =>
    unfold Node.fsmApplyItems
    extract_lets s1 src2 s2 resp src3 s3 src4 s4
    have h1 : FK s s1 := fk_assert s _ _
    have h2 : FK s s2 := by unfold s2; split; exact h1.trans (fk_withFsm _ _); exact h1
    have h3 : FK s s3 := by unfold s3; split; exact h2.trans (fk_withFsm _ _); exact h2
    have h4 : FK s s4 := by unfold s4; split; exact h3.trans (fk_withFsm _ _); exact h3
    refine (h4.then (rel_reply t ht s4 q.task resp)).trans' (ih _) ?_
    simp only [List.map_cons, List.count_cons, beq_iff_eq]
    unfold ind; omega

theorem fsmApply_rel (t : Nat) (ht : t ≠ 0) (items : List QItem) (s : Node) :
    Rel t ((items.map (·.task)).count t) s (s.fsmApply items) := by
  unfold Node.fsmApply
  split
  · exact rel_panic_any t _ s _
  · split
    · exact rel_panic_any t _ s _
    · extract_lets front s1 s2
      have h1 : FK s s1 := fk_fsmApplyLogTo s _
      have h2 : Rel t ((items.map (·.task)).count t) s s2 := h1.then (fsmApplyItems_rel t ht items s1)
      exact h2.fk (fk_assert _ _ _)

theorem fk_applyCommitted (s : Node) : FK s s.applyCommitted := by
  unfold Node.applyCommitted Node.fsmApply
  split
  · exact fk_panic s _
  · split
    · exact fk_panic s _
    · exact (fk_fsmApplyLogTo s _).trans (fk_assert _ _ _)

theorem splitQueue_append (ci : Nat) (q : List QItem) : (splitQueue ci q).1 ++ (splitQueue ci q).2 = q := by
  induction q with
  | nil => rfl
  | cons x xs ih =>
    unfold splitQueue
    split
    · dsimp only; rw [List.cons_append, ih]
    · rfl

theorem applyCommittedL_rel (t : Nat) (ht : t ≠ 0) (s : Node) : Rel t 0 s s.applyCommittedL := by
  unfold Node.applyCommittedL
  extract_lets sp src s1
  have hq : s.ldr.queue = sp.1 ++ sp.2 := (splitQueue_append _ _).symm
  have h2 := fsmApply_rel t ht sp.1 s1
  refine ⟨fun h => h2.mono h, fun hp => ?_, fun o => h2.ok ⟨o.1, o.2⟩⟩
  rw [h2.cnt hp, Nat.add_zero]
  show cA t s + ((sp.2.map (·.task)).count t + cW t s + cT t s + cP t s + cR t s) + _ = _
  unfold led pendCount cQ
  rw [hq, List.map_append, List.count_append]
  omega

/-- `setCommitIndexL` on a stable configuration: every waiting task is answered and the list is cleared -/
theorem rel_waitStable (t : Nat) (ht : t ≠ 0) (g : Node → Nat → String) (s : Node) :
    Rel t 0 s ((s.ldr.waitStable.foldl (fun s x => s.reply x (g s x)) s).withLdr
      { (s.ldr.waitStable.foldl (fun s x => s.reply x (g s x)) s).ldr with waitStable := [] }) := by
  obtain ⟨h1, h2⟩ := rel_foldl_reply t ht (fun x : Nat => x) g s.ldr.waitStable s
  generalize s.ldr.waitStable.foldl (fun s x => s.reply x (g s x)) s = s' at h1 h2
  simp only [List.map_id'] at h1
  refine ⟨h1.mono, fun hp => ?_, fun o => ?_⟩
  · have hc := h1.cnt hp
    show cA t s' + ((s'.ldr.queue.map (·.task)).count t + 0 + ind s'.ldr.transfer.task t + cP t s' + cR t s') = _
    unfold led pendCount cQ cW cT at hc
    rw [h2] at hc ⊢
    unfold led pendCount cQ cW cT
    omega
  · have o' := h1.ok o
    exact ⟨o'.1, o'.2⟩

/-! ### the mutually recursive leader block -/

/-- the statement about `checkConfigActions` / `checkConfigAction`: `m` changes were started with the task -/
def CountsUpTo (t task : Nat) (s s' : Node) : Prop :=
  ∃ m, Rel t (m * ind task t) s s' ∧ (m = 0 → s'.lastLogIndex = s.lastLogIndex)

theorem CountsUpTo.zero {t task : Nat} {s s' : Node} (h : FK s s') (hl : s'.lastLogIndex = s.lastLogIndex) :
    CountsUpTo t task s s' := ⟨0, (h.rel t).cast (Nat.zero_mul _), fun _ => hl⟩

theorem CountsUpTo.trans {t task : Nat} {s s' s'' : Node} (h₁ : CountsUpTo t task s s') (h₂ : CountsUpTo t task s' s'') :
    CountsUpTo t task s s'' := by
  obtain ⟨m₁, r₁, l₁⟩ := h₁
  obtain ⟨m₂, r₂, l₂⟩ := h₂
  exact ⟨m₁ + m₂, r₁.trans' r₂ (Nat.add_mul _ _ _), fun h => by rw [l₂ (by omega), l₁ (by omega)]⟩

/-- with the null task the count does not move -/
theorem CountsUpTo.rel0 {t : Nat} (ht : t ≠ 0) {s s' : Node} (h : CountsUpTo t 0 s s') : Rel t 0 s s' := by
  obtain ⟨m, r, _⟩ := h
  exact r.cast (by rw [ind_zero ht, Nat.mul_zero])

theorem countsUpTo_foldl {t task : Nat} (f : Node → Nat → Node) (hf : ∀ s x, CountsUpTo t task s (f s x))
    (xs : List Nat) (s : Node) : CountsUpTo t task s (xs.foldl f s) := by
  induction xs generalizing s with
  | nil => exact CountsUpTo.zero (FK.refl s) rfl
  | cons x xs ih => exact (hf s x).trans (ih _)

theorem lastLogIndex_panic (s : Node) (site : String) : (s.panic site).lastLogIndex = s.lastLogIndex :=
  (panic_fields s site).2.1

/-- **The ledger through the leader block** (any fuel): accepting a batch adds exactly its tasks (each is queued,
or answered at once with a definite rejection, or — the fuel having run out — the step has failed); commit
advancement, applying and membership bookkeeping only move tasks from pending to answered. -/
theorem block (t : Nat) (ht : t ≠ 0) : ∀ fuel : Nat,
    (∀ s b, Rel t ((b.map (·.task)).count t) s (storeEntry fuel s b)) ∧
    (∀ s b, Rel t ((b.map (·.task)).count t) s (storeItems fuel s b)) ∧
    (∀ s c, Rel t 0 s (changeConfigL fuel s c)) ∧
    (∀ s task c, Rel t (ind task t) s (doChangeConfig fuel s task c)) ∧
    (∀ s task c, CountsUpTo t task s (checkConfigActions fuel s task c)) ∧
    (∀ s task c id, CountsUpTo t task s (checkConfigAction fuel s task c id)) ∧
    (∀ s i, Rel t 0 s (setCommitIndexL fuel s i)) ∧
    (∀ s, Rel t 0 s (onMajorityCommit fuel s)) := by
  intro fuel
  induction fuel with
  | zero =>
    refine ⟨?_, ?_, ?_, ?_, ?_, ?_, ?_, ?_⟩
    · intro s b; unfold storeEntry; exact rel_panic_any t _ s _
    · intro s b
      cases b with
      | nil => unfold storeItems; exact Rel.refl t s
      | cons q qs => unfold storeItems; exact rel_panic_any t _ s _
    · intro s c; unfold changeConfigL; exact rel_panic_any t _ s _
    · intro s task c; unfold doChangeConfig; exact rel_panic_any t _ s _
    · intro s task c; unfold checkConfigActions
      exact CountsUpTo.zero (fk_panic s _) (lastLogIndex_panic s _)
    · intro s task c id; unfold checkConfigAction
      exact CountsUpTo.zero (fk_panic s _) (lastLogIndex_panic s _)
    · intro s i; unfold setCommitIndexL; exact rel_panic_any t _ s _
    · intro s; unfold onMajorityCommit; exact rel_panic_any t _ s _
  | succ n ih =>
    obtain ⟨ihSE, ihSI, ihCL, ihDC, ihCAs, ihCA, ihSC, ihMC⟩ := ih
    refine ⟨?_, ?_, ?_, ?_, ?_, ?_, ?_, ?_⟩
    · -- storeEntry
      intro s b
      unfold storeEntry
      extract_lets lastIndex s1 s2 s3 s4
      have h1 : Rel t ((b.map (·.task)).count t) s s1 := ihSI s b
      have h2 : Rel t ((b.map (·.task)).count t) s s2 := by
        unfold s2
        split
        · split
          · exact (h1.trans (applyCommittedL_rel t ht s1)).cast rfl
          · exact h1
        · exact h1
      have h4 : Rel t ((b.map (·.task)).count t) s s4 :=
        (h2.fk (fk_beginFinishedRounds s2)).fk (fk_notifyFlr _)
      split
      · split
        · exact (h4.trans (ihMC s4)).cast rfl
        · exact h4
      · exact h2
    · -- storeItems
      intro s b
      cases b with
      | nil => unfold storeItems; exact Rel.refl t s
      | cons q qs =>
        unfold storeItems; dsimp only
        refine Rel.trans' (k₁ := ind q.task t) ?_ (ihSI _ qs) ?_
        · split
          · exact rel_reply t ht s _ _
          · split
            · split
              · exact rel_reply t ht s _ _
              · exact rel_reply t ht s _ _
            · have h1 := rel_enqueue t s { q with index := s.lastLogIndex + 1, term := s.term, cfg := q.cfg.map Config.payload }
              split
              · have h2 := h1.fk (fk_appendEntry _ { q with index := s.lastLogIndex + 1, term := s.term, cfg := q.cfg.map Config.payload }.toEntry)
                split
                · split
                  · exact (h2.trans (ihCL _ _)).cast rfl
                  · exact h2.fk (fk_panic _ _)
                · exact h2
              · exact h1
        · simp only [List.map_cons, List.count_cons, beq_iff_eq]
          unfold ind; omega
    · -- changeConfigL
      intro s c
      unfold changeConfigL
      extract_lets src1 s1 s2 src2 s3 s4
      have h1 : FK s s1 := fk_withLdr s _ rfl rfl rfl rfl
      have h2 : FK s s2 := h1.trans (fk_changeConfigR _ _)
      have h3 : FK s s3 := h2.trans (fk_withLdr _ _ rfl rfl rfl rfl)
      have h4 : FK s s4 := by
        refine h3.trans (fk_foldl _ ?_ _ _)
        intro x nd
        split
        · exact FK.refl x
        · split
          · exact fk_addReplication _ _
          · exact fk_setRepl _ _
      exact h4.then ((ihCAs s4 0 _).rel0 ht)
    · -- doChangeConfig
      intro s task c
      unfold doChangeConfig
      refine (ihSE s _).cast ?_
      simp only [List.map_cons, List.map_nil, count_singleton']
    · -- checkConfigActions
      intro s task c
      unfold checkConfigActions
      extract_lets nd c1 c2 r
      have h1 : CountsUpTo t task s r.1 := by
        unfold r
        split
        · split
          · exact ⟨1, (ihDC s task _).cast (Nat.one_mul _), fun h => by omega⟩
          · split
            · exact ⟨1, (ihDC s task _).cast (Nat.one_mul _), fun h => by omega⟩
            · exact CountsUpTo.zero (fk_panic s _) (lastLogIndex_panic s _)
        · exact CountsUpTo.zero (FK.refl s) rfl
      refine h1.trans ((CountsUpTo.zero (fk_popOrder r.1) rfl).trans (countsUpTo_foldl _ ?_ _ _))
      intro x id
      split
      · exact ihCA x task r.2 id
      · exact CountsUpTo.zero (FK.refl x) rfl
    · -- checkConfigAction
      intro s task c id
      unfold checkConfigAction; dsimp only
      have h1 : ∀ r, CountsUpTo t task s (s.setRepl r) := fun r => CountsUpTo.zero (fk_setRepl s r) rfl
      have h2 : ∀ r c', CountsUpTo t task s (doChangeConfig n (s.setRepl r) task c') := fun r c' =>
        ⟨1, ((fk_setRepl s r).then (ihDC _ task c')).cast (Nat.one_mul _), fun h => by omega⟩
      repeat' split
      all_goals first
        | exact CountsUpTo.zero (FK.refl s) rfl
        | exact h1 _
        | exact h2 _ _
    · -- setCommitIndexL
      intro s i
      unfold setCommitIndexL
      extract_lets s1 ready r s2 s3 s5 src5
      have h2 : FK s s2 := (fk_commitLog s i).trans (fk_setCommitIndexR _ i)
      have h3 : Rel t 0 s s3 := by
        unfold s3; split
        · exact h2.then ((ihCAs s2 0 _).rel0 ht)
        · exact h2.rel t
      split
      · split
        · exact (h3.trans (rel_waitStable t ht (fun x _ => s!"config:{x.configs.latest.index}") s3)).cast rfl
        · exact (h3.trans ((ihCAs s3 0 _).rel0 ht)).cast rfl
      · exact h3
    · -- onMajorityCommit
      intro s
      unfold onMajorityCommit
      extract_lets m s1
      have h1 : FK s s1 := by unfold s1; split; exact FK.refl s; exact fk_panic s _
      split
      · exact h1.then ((((ihSC s1 m.1).trans (applyCommittedL_rel t ht _)).cast rfl).fk (fk_notifyFlr _))
      · exact h1.rel t

/-! ### frame handlers (requests from peers, timers, elections) -/

theorem FK.step {s₀ x y : Node} (e : FK x y) (h : FK s₀ x) : FK s₀ y := h.trans e

/-- one backward step for goals `FK s₀ (…)` -/
syntax "fk_step" : tactic
macro_rules
  | `(tactic| fk_step) => `(tactic| first
      | with_reducible assumption
      | with_reducible exact FK.refl _
      | with_reducible apply FK.step (fk_ret _ _)
      | with_reducible apply FK.step (fk_panic _ _)
      | with_reducible apply FK.step (fk_assert _ _ _)
      | with_reducible apply FK.step (fk_point _ _)
      | with_reducible apply FK.step (fk_setRole _ _)
      | with_reducible apply FK.step (fk_setLeader _ _)
      | with_reducible apply FK.step (fk_setTerm _ _)
      | with_reducible apply FK.step (fk_setVotedFor _ _ _)
      | with_reducible apply FK.step (fk_withRpcReply _ _)
      | with_reducible apply FK.step (fk_withVotesNeeded _ _)
      | with_reducible apply FK.step (fk_withCandTransfer _ _)
      | with_reducible apply FK.step (fk_withCommitIndex _ _)
      | with_reducible apply FK.step (fk_withLast _ _ _)
      | with_reducible apply FK.step (fk_withFsm _ _)
      | with_reducible apply FK.step (fk_revertConfig _)
      | with_reducible apply FK.step (fk_commitConfig _)
      | with_reducible apply FK.step (fk_changeConfigR _ _)
      | with_reducible apply FK.step (fk_publishSnapshot _ _)
      | with_reducible apply FK.step (fk_commitLog _ _)
      | with_reducible apply FK.step (fk_removeGTE _ _ _)
      | with_reducible apply FK.step (fk_compactLog _ _)
      | with_reducible apply FK.step (fk_clearLog _)
      | with_reducible apply FK.step (fk_appendEntry _ _)
      | with_reducible apply FK.step (fk_setCommitIndexR _ _)
      | with_reducible apply FK.step (fk_applyCommitted _)
      | with_reducible apply FK.step (fk_fsmRestore _)
      | with_reducible apply FK.step (fk_doClose _ _)
      | with_reducible apply FK.step (fk_notifyFlr _)
      | with_reducible apply FK.step (fk_checkQuorum _)
      | with_reducible apply FK.step (fk_tryTransfer _)
      | with_reducible apply FK.step (fk_setRepl _ _)
      | split)

theorem fk_onVoteRequest (s : Node) (q : VoteReq) : FK s (s.onVoteRequest q) := by
  unfold Node.onVoteRequest
  dsimp only
  repeat' fk_step

theorem fk_resolveConflict (s : Node) (ne : Entry) (pt : Nat) : FK s (s.resolveConflict ne pt) := by
  unfold Node.resolveConflict
  dsimp only
  repeat' fk_step

theorem fk_appendLoop (s₀ : Node) (st : AppLoop) (es : List Entry) (h : FK s₀ st.s) : FK s₀ (appendLoop st es).s := by
  induction es generalizing st with
  | nil => exact h
  | cons ne rest ih =>
    unfold appendLoop
    dsimp only
    have hR : ∀ x a b, FK s₀ x → FK s₀ (x.resolveConflict a b) := fun x a b hx => hx.trans (fk_resolveConflict x a b)
    repeat' (first | fk_step | (apply ih; dsimp only) | apply hR)

theorem fk_appendCheck (s : Node) (q : AppendReq) : FK s (s.appendCheck q) := by
  unfold Node.appendCheck
  dsimp only
  repeat' fk_step

theorem fk_onAppendEntries (s : Node) (q : AppendReq) : FK s (s.onAppendEntries q) := by
  unfold Node.onAppendEntries
  dsimp only
  have hA : ∀ x, FK s x → FK s (x.appendCheck q) := fun x hx => hx.trans (fk_appendCheck x q)
  have hL : ∀ st, FK s st.s → FK s (appendLoop st q.entries).s := fun st hst => fk_appendLoop s st _ hst
  repeat' (first | fk_step | apply hA | (apply hL; dsimp only))

theorem fk_onInstallSnap (s : Node) (q : InstallReq) : FK s (s.onInstallSnap q) := by
  unfold Node.onInstallSnap
  dsimp only
  repeat' fk_step

theorem fk_onTimeoutNow (s : Node) : FK s s.onTimeoutNow := by
  unfold Node.onTimeoutNow
  repeat' fk_step

theorem fk_rpcDone (s : Node) (a b : Bool) : FK s (s.rpcDone a b) := by
  unfold Node.rpcDone
  repeat' fk_step

theorem fk_followerTimeout (s : Node) : FK s s.followerTimeout := by
  unfold Node.followerTimeout
  dsimp only
  repeat' fk_step

theorem fk_startElection (s : Node) : FK s s.startElection := by
  unfold Node.startElection
  dsimp only
  repeat' fk_step

theorem fk_onVoteResult (s : Node) (e : Bool) (tm r : Nat) : FK s (s.onVoteResult e tm r) := by
  unfold Node.onVoteResult
  dsimp only
  repeat' fk_step

/-! ### counted handlers that never touch the `Leader` record -/

/-- `Rel` and the leader part of the ledger untouched -/
def RelK (t k : Nat) (s s' : Node) : Prop := Rel t k s s' ∧ ldrKey s' = ldrKey s

theorem RelK.trans' {t k₁ k₂ k : Nat} {s s' s'' : Node} (h₁ : RelK t k₁ s s') (h₂ : RelK t k₂ s' s'') (e : k = k₁ + k₂) :
    RelK t k s s'' := ⟨h₁.1.trans' h₂.1 e, h₂.2.trans h₁.2⟩

theorem FK.relK {s s' : Node} (h : FK s s') (t : Nat) : RelK t 0 s s' := ⟨h.rel t, h.ldrKey⟩

theorem RelK.fk {t k : Nat} {s s' s'' : Node} (h₁ : RelK t k s s') (h₂ : FK s' s'') : RelK t k s s'' :=
  h₁.trans' (h₂.relK t) rfl

theorem FK.thenK {t k : Nat} {s s' s'' : Node} (h₁ : FK s s') (h₂ : RelK t k s' s'') : RelK t k s s'' :=
  (h₁.relK t).trans' h₂ (by omega)

theorem relK_reply (t : Nat) (ht : t ≠ 0) (s : Node) (task : Nat) (r : String) :
    RelK t (ind task t) s (s.reply task r) :=
  ⟨rel_reply t ht s task r, by unfold ldrKey; rw [(reply_fields s task r).2.2.2.2.2.2.1]⟩

theorem rejectEntries_relK (t : Nat) (ht : t ≠ 0) (b : List QItem) (s : Node) :
    RelK t ((b.map (·.task)).count t) s (s.rejectEntries b) := by
  induction b generalizing s with
  | nil => exact (FK.refl s).relK t
  | cons q qs ih =>
    unfold Node.rejectEntries
    dsimp only
    refine RelK.trans' (k₁ := ind q.task t) ?_ (ih _) ?_
    · split
      · exact relK_reply t ht s _ _
      · exact relK_reply t ht s _ _
    · simp only [List.map_cons, List.count_cons, beq_iff_eq]
      unfold ind; omega

theorem bootstrap_relK (t : Nat) (ht : t ≠ 0) (s : Node) (task : Nat) (c : Config) :
    RelK t (ind task t) s (s.bootstrap task c) := by
  unfold Node.bootstrap
  dsimp only
  repeat' split
  all_goals first
    | exact relK_reply t ht s _ _
    | (refine RelK.fk (FK.thenK ?_ (relK_reply t ht _ _ _)) (fk_setRole _ _)
       repeat' fk_step)

/-- a state that differs from `s` in the snapshot bookkeeping only -/
theorem relK_snap (t k : Nat) (s s' : Node) (hr : s'.replies = s.replies) (hl : s'.ldr = s.ldr)
    (hp : s'.panicked = s.panicked) (hc : cP t s' + cR t s' = cP t s + cR t s + k) (ho : SnapOK s → SnapOK s') :
    RelK t k s s' := by
  refine ⟨⟨fun h => by rw [hp]; exact h, fun _ => ?_, fun o => ⟨?_, ho o.2⟩⟩, by unfold ldrKey; rw [hl]⟩
  · unfold led pendCount cA cQ cW cT
    rw [hr, hl]; omega
  · have := o.1; unfold TransOK at *; rw [hl]; exact this

theorem onTakeSnapshot_relK (t : Nat) (ht : t ≠ 0) (s : Node) (task th : Nat) :
    RelK t (ind task t) s (s.onTakeSnapshot task th) := by
  unfold Node.onTakeSnapshot
  split
  · exact relK_reply t ht s _ _
  · rename_i h
    have hp : s.snapPending = none := by
      cases e : s.snapPending with
      | none => rfl
      | some x => exact absurd (Or.inl (by rw [e]; rfl)) h
    have hr : s.snapResult = none := by
      cases e : s.snapResult with
      | none => rfl
      | some x => exact absurd (Or.inr (by rw [e]; rfl)) h
    refine relK_snap t _ s (s.withSnapPending (some _)) rfl rfl rfl ?_ ?_
    · show ind task t + cR t s = _
      unfold cP cR optCount; rw [hp, hr]; show _ + 0 = 0 + 0 + _; omega
    · intro _; exact Or.inr hr

theorem snapRun_relK (t : Nat) (s : Node) (ho : SnapOK s) : RelK t 0 s s.snapRun := by
  unfold Node.snapRun
  split
  · exact (FK.refl s).relK t
  · rename_i rq hrq
    have hr : s.snapResult = none := by
      rcases ho with h | h
      · rw [h] at hrq; cases hrq
      · exact h
    have key : ∀ x : Node, FK (s.withSnapPending none) x → ∀ rs : SnapRes, rs.task = rq.task →
        RelK t 0 s (x.withSnapResult (some rs)) := by
      intro x hx rs hrs
      obtain ⟨a, b, c, d, e, f, g⟩ := key_eq hx.same
      have a : x.replies = s.replies := a
      have b : x.ldr.queue = s.ldr.queue := b
      have c : x.ldr.waitStable = s.ldr.waitStable := c
      have d : x.ldr.transfer.task = s.ldr.transfer.task := d
      have e : x.ldr.transfer.active = s.ldr.transfer.active := e
      have f : x.snapPending = none := f
      have hl : ldrKey x = ldrKey s := hx.ldrKey
      refine ⟨⟨fun h => hx.mono h, fun _ => ?_, fun o => ⟨?_, Or.inl f⟩⟩, hl⟩
      · show cA t x + (cQ t x + cW t x + cT t x + cP t x + ind rs.task t) = _
        unfold led pendCount cA cQ cW cT cP cR
        rw [a, b, c, d, f, hrs, hrq, hr]
        show _ + (_ + _ + _ + 0 + _) = _ + (_ + _ + _ + ind rq.task t + 0) + 0
        omega
      · have := o.1; unfold TransOK at *
        show (x.ldr.transfer.active = false → x.ldr.transfer.task = 0)
        rw [d, e]; exact this
    dsimp only
    split
    · exact key _ (FK.refl _) _ rfl
    · split
      · exact key _ (FK.refl _) _ rfl
      · exact key _ (fk_publishSnapshot _ _) _ rfl

theorem onSnapshotTaken_relK (t : Nat) (ht : t ≠ 0) (s : Node) : RelK t 0 s s.onSnapshotTaken := by
  unfold Node.onSnapshotTaken
  split
  · exact (FK.refl s).relK t
  · rename_i rs hrs
    have key : ∀ x : Node, FK (s.withSnapResult none) x → ∀ r : String, RelK t 0 s (x.reply rs.task r) := by
      intro x hx r
      obtain ⟨r1, r2⟩ := relK_reply t ht x rs.task r
      obtain ⟨a, b, c, d, e, f, g⟩ := key_eq hx.same
      have a : x.replies = s.replies := a
      have b : x.ldr.queue = s.ldr.queue := b
      have c : x.ldr.waitStable = s.ldr.waitStable := c
      have d : x.ldr.transfer.task = s.ldr.transfer.task := d
      have e : x.ldr.transfer.active = s.ldr.transfer.active := e
      have f : x.snapPending = s.snapPending := f
      have g : x.snapResult = none := g
      refine ⟨⟨fun h => r1.mono (hx.mono h), fun hp => ?_, fun o => r1.ok ⟨?_, Or.inr g⟩⟩, r2.trans hx.ldrKey⟩
      · rw [r1.cnt hp]
        unfold led pendCount cA cQ cW cT cP cR
        rw [a, b, c, d, f, g, hrs]
        show _ + (_ + _ + _ + _ + 0) + _ = _ + (_ + _ + _ + _ + ind rs.task t) + 0
        omega
      · have := o.1; unfold TransOK at *
        rw [d, e]; exact this
    extract_lets s1 repls nowC0 canC0 nowC canC s2 src s3
    split
    · exact key _ (FK.refl _) _
    · apply key
      have h2 : FK s1 s2 := by unfold s2; split; exact fk_compactLog _ _; exact FK.refl _
      unfold s3
      split
      · split
        · exact (h2.trans (fk_withLdr s2 { src with removeLTE := canC } rfl rfl rfl rfl)).trans (fk_notifyFlr _)
        · split
          · exact (h2.trans (fk_withLdr s2 { src with removeLTE := s2.log.prev } rfl rfl rfl rfl)).trans (fk_notifyFlr _)
          · exact h2
      · exact FK.refl _

/-! ### leader handlers outside the block -/

theorem led_eq (t : Nat) (s : Node) :
    led t s = cA t s + ((s.ldr.queue.map (·.task)).count t + s.ldr.waitStable.count t + ind s.ldr.transfer.task t +
      cP t s + cR t s) := rfl

/-- `transfer.reply`: the transfer task is answered and the transfer record cleared -/
theorem transferReply_rel (t : Nat) (ht : t ≠ 0) (s : Node) (r : String) :
    Rel t 0 s (s.transferReply r) ∧ (s.transferReply r).ldr.transfer.task = 0 := by
  unfold Node.transferReply
  have h1 := rel_reply t ht s s.ldr.transfer.task r
  have hl : (s.reply s.ldr.transfer.task r).ldr = s.ldr := (reply_fields _ _ _).2.2.2.2.2.2.1
  show Rel t 0 s ((s.reply s.ldr.transfer.task r).withLdr { (s.reply s.ldr.transfer.task r).ldr with transfer := {} }) ∧ _
  generalize s.reply s.ldr.transfer.task r = s1 at h1 hl
  refine ⟨⟨h1.mono, fun hp => ?_, fun o => ⟨fun _ => rfl, (h1.ok o).2⟩⟩, rfl⟩
  have hc := h1.cnt hp
  rw [led_eq, led_eq, hl] at hc
  show cA t s1 + ((s1.ldr.queue.map (·.task)).count t + s1.ldr.waitStable.count t + ind 0 t + cP t s1 + cR t s1) = _
  rw [led_eq, hl, ind_zero ht]
  omega

theorem onTransfer_rel (t : Nat) (ht : t ≠ 0) (s : Node) (task target : Nat) (ho : TransOK s) :
    Rel t (ind task t) s (s.onTransfer task target) := by
  unfold Node.onTransfer
  extract_lets err src1 src2 s1
  split
  · exact rel_reply t ht s _ _
  · rename_i hv
    have hv' : s.validateTransfer target = "" := by
      cases h : decide (s.validateTransfer target = "") with
      | true => exact of_decide_eq_true h
      | false => exact absurd (of_decide_eq_false h) hv
    have ha : s.ldr.transfer.active = false := by
      cases h : s.ldr.transfer.active with
      | false => rfl
      | true =>
        exfalso
        unfold Node.validateTransfer at hv'
        rw [if_pos h] at hv'
        exact absurd hv' (by decide)
    have h0 := ho ha
    refine (rel_withLdr t (ind task t) s _ ?_ ?_).fk (fk_tryTransfer s1)
    · show cQ t s + cW t s + ind task t = _
      unfold cT; rw [h0, ind_zero ht]; omega
    · intro _ h; cases h

theorem replyTransfer_rel (t : Nat) (ht : t ≠ 0) (s : Node) (r : String) : Rel t 0 s (s.replyTransfer r) := by
  unfold Node.replyTransfer
  exact ((transferReply_rel t ht s r).1.trans (((block t ht _).2.2.2.2.1 _ 0 _).rel0 ht)).cast rfl

theorem onTimeoutNowResult_rel (t : Nat) (ht : t ≠ 0) (s : Node) (src : Nat) (e : Bool) (r : Nat) :
    Rel t 0 s (s.onTimeoutNowResult src e r) := by
  unfold Node.onTimeoutNowResult
  extract_lets l0 t0 s1 s2 l1 t1
  have h0 : FK s s1 := fk_withLdr s _ rfl rfl rfl rfl
  have h2 : FK s s2 := by
    unfold s2
    split
    · split
      · exact h0.trans (fk_setRepl _ _)
      · exact h0
    · exact h0.trans (fk_panic _ _)
  split
  · split
    · exact (h2.trans (fk_tryTransfer _)).rel t
    · exact h2.rel t
  · split
    · split
      · exact h0.then (replyTransfer_rel t ht s1 _)
      · exact (h0.trans (fk_tryTransfer _)).rel t
    · refine (FK.trans h0 ?_).rel t
      exact fk_withLdr s1 _ rfl rfl rfl rfl

/-- `leader.init` overwrites the queue, the wait list and the transfer record: nothing may wait there -/
theorem leaderInit_rel (t : Nat) (ht : t ≠ 0) (s : Node) (hq : Quiet s) : Rel t 0 s s.leaderInit := by
  unfold Node.leaderInit
  extract_lets s1 s2 s3 s4
  have h1 : FK s s1 := fk_assert s _ _
  have hq1 : Quiet s1 := hq.congr h1.ldrKey
  have h2 : Rel t 0 s1 s2 := by
    apply rel_withLdr
    · show 0 + 0 + ind 0 t = _
      unfold cQ cW cT; rw [hq1.1, hq1.2.1, hq1.2.2]; rfl
    · intro _ _; rfl
  have h3 : FK s2 s3 := by
    apply fk_foldl
    intro x nd
    split
    · exact FK.refl x
    · exact fk_addReplication _ _
  have h4 : Rel t 0 s3 s4 := ((block t ht _).2.2.2.2.1 s3 0 _).rel0 ht
  have h5 : Rel t 0 s4 (storeEntry (fuelFor 1) s4 [{ typ := etNop }]) := by
    refine ((block t ht _).1 s4 _).cast ?_
    show 0 = [0].count t
    rw [count_singleton', ind_zero ht]
  exact (h1.then ((((h2.fk h3).trans h4).cast rfl).trans h5)).cast rfl

/-- `leader.release` after the transfer was answered: every queued entry and every waiting task is answered,
the record is reset -/
theorem leaderReleaseRest_rel (t : Nat) (ht : t ≠ 0) (s : Node) (h0 : s.ldr.transfer.task = 0) :
    Rel t 0 s s.leaderReleaseRest ∧ Quiet s.leaderReleaseRest := by
  unfold Node.leaderReleaseRest
  extract_lets s1 err s2 s3
  have h1 : FK s s1 := by unfold s1; split; exact fk_setLeader s 0; exact FK.refl s
  obtain ⟨a2, b2⟩ := rel_foldl_reply t ht (fun q : QItem => q.task) (fun _ _ => err) s1.ldr.queue s1
  obtain ⟨a3, b3⟩ := rel_foldl_reply t ht (fun x : Nat => x) (fun _ _ => err) s2.ldr.waitStable s2
  have a2 : Rel t ((s1.ldr.queue.map (·.task)).count t) s1 s2 := a2
  have a3 : Rel t (s2.ldr.waitStable.count t) s2 s3 := by simpa only [List.map_id'] using a3
  have b2 : s2.ldr = s1.ldr := b2
  have b3 : s3.ldr = s2.ldr := b3
  obtain ⟨_, k1, k2, k3, _, _, _⟩ := key_eq h1.same
  have h13 := h1.then (a2.trans a3)
  refine ⟨⟨h13.mono, fun hp => ?_, fun o => ⟨fun _ => rfl, (h13.ok o).2⟩⟩, rfl, rfl, rfl⟩
  have hc := h13.cnt hp
  rw [led_eq, led_eq, b3, b2, k1, k2, k3, h0, ind_zero ht] at hc
  show cA t s3 + (0 + 0 + ind 0 t + cP t s3 + cR t s3) = _
  rw [led_eq, h0, ind_zero ht]
  omega

theorem leaderRelease_rel (t : Nat) (ht : t ≠ 0) (s : Node) (ho : TransOK s) :
    Rel t 0 s s.leaderRelease ∧ Quiet s.leaderRelease := by
  unfold Node.leaderRelease
  split
  · obtain ⟨a, b⟩ := transferReply_rel t ht s s.releaseResult
    obtain ⟨c, d⟩ := leaderReleaseRest_rel t ht _ b
    exact ⟨(a.trans c).cast rfl, d⟩
  · rename_i ha
    exact leaderReleaseRest_rel t ht s (ho (by simpa using ha))

theorem onWaitForStable_rel (t : Nat) (ht : t ≠ 0) (s : Node) (task : Nat) :
    Rel t (ind task t) s (s.onWaitForStable task) := by
  unfold Node.onWaitForStable
  split
  · exact rel_reply t ht s _ _
  · apply rel_withLdr
    · show cQ t s + (s.ldr.waitStable ++ [task]).count t + cT t s = _
      rw [List.count_append, count_singleton']
      unfold cW; omega
    · exact id

/-- `leader.onChangeConfig`: the task is answered at once, or attached to `m ≥ 1` configuration changes -/
theorem onChangeConfig_rel (t : Nat) (ht : t ≠ 0) (s : Node) (task : Nat) (c : Config) :
    ∃ m, 1 ≤ m ∧ Rel t (m * ind task t) s (s.onChangeConfig task c) := by
  have hCA := (block t ht (fuelFor 0)).2.2.2.2.1 s task c
  have hDC := fun x => (block t ht (fuelFor 1)).2.2.2.1 x task c
  unfold Node.onChangeConfig
  dsimp only
  repeat' split
  all_goals first
    | exact ⟨1, Nat.le_refl _, (rel_reply t ht s _ _).cast (Nat.one_mul _)⟩
    | (obtain ⟨m, r, hl⟩ := hCA
       exact ⟨m + 1, by omega, r.trans' (hDC _) (by rw [Nat.add_mul, Nat.one_mul])⟩)
    | (obtain ⟨m, r, hl⟩ := hCA
       refine ⟨m, ?_, r⟩
       cases m with
       | zero => exact absurd (hl rfl) ‹_›
       | succ k => omega)

theorem replUpdLoop_rel (t : Nat) (ht : t ≠ 0) (s₀ : Node) :
    ∀ (us : List ReplUpdate) (s : Node) (f : UpdFlags), Rel t 0 s₀ s → Rel t 0 s₀ (replUpdLoop s f us).1 := by
  intro us
  induction us with
  | nil => intro s f h; exact h
  | cons u us ih =>
    intro s f h
    unfold replUpdLoop
    split
    · exact ih _ _ h
    · split
      · exact ih _ _ h
      · split
        · dsimp only
          apply ih
          split
          · exact ((h.fk (fk_setRepl s _)).trans (((block t ht _).2.2.2.2.2.1 _ 0 _ _).rel0 ht)).cast rfl
          · exact h.fk (fk_setRepl s _)
        · exact ih _ _ (h.fk (fk_setRepl _ _))
        · exact ih _ _ (h.fk (fk_setRepl _ _))
        · exact h.fk (((fk_setRole s _).trans (fk_setLeader _ _)).trans (fk_setTerm _ _))

theorem checkReplUpdates_rel (t : Nat) (ht : t ≠ 0) (s : Node) (us : List ReplUpdate) :
    Rel t 0 s (s.checkReplUpdates us) := by
  unfold Node.checkReplUpdates
  extract_lets r s1 f s2 s3 s4
  have h1 : Rel t 0 s s1 := replUpdLoop_rel t ht s us s {} (Rel.refl t s)
  have h2 : Rel t 0 s s2 := by
    unfold s2; split
    · exact (h1.trans ((block t ht _).2.2.2.2.2.2.2 s1)).cast rfl
    · exact h1
  have h3 : Rel t 0 s s3 := by
    unfold s3; split
    · exact h2.fk (fk_checkQuorum _)
    · exact h2
  have h4 : Rel t 0 s s4 := by
    unfold s4; split
    · exact h3.fk (fk_checkLogCompact _)
    · exact h3
  split
  · exact h1
  · split
    · exact h4.fk (fk_tryTransfer _)
    · exact h4

/-! ### role transitions and `Shutdown` -/

theorem releaseRole_rel (t : Nat) (ht : t ≠ 0) (x : Node) (cur : Role) (ho : TransOK x) :
    Rel t 0 x (x.releaseRole cur) ∧ (cur ≠ .leader → ldrKey (x.releaseRole cur) = ldrKey x) ∧
    (cur = .leader → Quiet (x.releaseRole cur)) := by
  cases cur with
  | follower => exact ⟨Rel.refl t x, fun _ => rfl, fun h => by cases h⟩
  | candidate => exact ⟨(fk_withCandTransfer x false).rel t, fun _ => rfl, fun h => by cases h⟩
  | leader =>
    obtain ⟨a, b⟩ := leaderRelease_rel t ht x ho
    exact ⟨a, fun h => absurd rfl h, fun _ => b⟩

/-- the end of `Shutdown`: a running snapshot finishes and its result is delivered -/
theorem finish_relK (t : Nat) (ht : t ≠ 0) (x : Node) (ho : SnapOK x) :
    RelK t 0 x (if (if x.snapPending.isSome then x.snapRun else x).snapResult.isSome
      then (if x.snapPending.isSome then x.snapRun else x).onSnapshotTaken
      else (if x.snapPending.isSome then x.snapRun else x)) := by
  have h1 : RelK t 0 x (if x.snapPending.isSome then x.snapRun else x) := by
    split
    · exact snapRun_relK t x ho
    · exact (FK.refl x).relK t
  generalize (if x.snapPending.isSome then x.snapRun else x) = y at h1 ⊢
  split
  · exact h1.trans' (onSnapshotTaken_relK t ht _) (by omega)
  · exact h1

theorem shutdown_rel (t : Nat) (ht : t ≠ 0) (s : Node) (ho : OK s) :
    Rel t 0 s s.shutdown ∧ (s.role ≠ .leader → ldrKey s.shutdown = ldrKey s) ∧
    (s.role = .leader → Quiet s.shutdown) := by
  unfold Node.shutdown
  extract_lets s1 s2 s3
  have h1 : FK s s1 := fk_doClose s _
  have hr1 : s1.role = s.role := LC.role_doClose s _
  obtain ⟨a, b, c⟩ := releaseRole_rel t ht s1 s1.role (h1.rel t |>.ok ho).1
  have a : Rel t 0 s1 s2 := a
  have ho2 : OK s2 := a.ok ((h1.rel t).ok ho)
  obtain ⟨f1, f2⟩ := finish_relK t ht s2 ho2.2
  refine ⟨(h1.then (a.trans f1)).cast rfl, fun hne => ?_, fun hl => ?_⟩
  · exact f2.trans ((b (by rw [hr1]; exact hne)).trans h1.ldrKey)
  · exact (c (by rw [hr1]; exact hl)).congr f2

/-! ### every operation -/

/-- the task ids an operation submits (0 = no client task) -/
def submittedRaw : Op → List Nat
  | .newEntries b => b.map (·.task)
  | .changeConfig t _ => [t]
  | .takeSnapshot t _ => [t]
  | .waitStable t => [t]
  | .transfer t _ => [t]
  | _ => []

/-- 1 for the task of a ChangeConfig request that a leader handles, else 0: the only task that the code
attaches to an unknown number of entries (see `block`) -/
def ccInd (s : Node) (op : Op) (t : Nat) : Nat :=
  match op with
  | .changeConfig task _ => if s.role = .leader then ind task t else 0
  | _ => 0

/-- a stable configuration asks for nothing: `checkConfigActions` only consumes its iteration order -/
theorem get_action_of_stable (c : Config) (id : Nat) (h : c.isStable = true) : (c.get id).action = actNone := by
  unfold Config.get Config.find?
  cases hf : c.nodes.find? (·.id == id) with
  | none => rfl
  | some n =>
    have hm : n ∈ c.nodes := List.mem_of_find?_eq_some hf
    unfold Config.isStable at h
    have := List.all_eq_true.mp h n hm
    simpa using this

theorem nextAction_of_none (n : CNode) (h : n.action = actNone) : n.nextAction = actNone := by
  unfold CNode.nextAction
  rw [h]
  simp only [actNone, actForceRemove, actDemote, actRemove, actPromote]
  repeat' split
  all_goals first | rfl | omega

theorem checkConfigAction_stable (n : Nat) (s : Node) (task : Nat) (c : Config) (id : Nat) (h : c.isStable = true) :
    checkConfigAction (n + 1) s task c id = s := by
  unfold checkConfigAction
  split
  · rfl
  · dsimp only
    rw [if_pos (nextAction_of_none _ (get_action_of_stable c id h))]

theorem checkConfigActions_stable (n : Nat) (s : Node) (task : Nat) (c : Config) (h : c.isStable = true) :
    checkConfigActions (n + 2) s task c = s.popOrder := by
  unfold checkConfigActions
  dsimp only
  rw [if_neg (by rw [get_action_of_stable c s.nid h]; exact fun e => e.2 rfl)]
  dsimp only
  generalize s.replOrder = xs
  generalize s.popOrder = x
  induction xs generalizing x with
  | nil => rfl
  | cons a as ih =>
    rw [List.foldl_cons]
    split
    · rw [checkConfigAction_stable n x task c a h]; exact ih x
    · exact ih x

/-- a ChangeConfig request that carries no action is answered at once or attached to exactly one entry -/
theorem onChangeConfig_stable_rel (t : Nat) (ht : t ≠ 0) (s : Node) (task : Nat) (c : Config) (h : c.isStable = true) :
    Rel t (ind task t) s (s.onChangeConfig task c) := by
  unfold Node.onChangeConfig
  dsimp only
  have e : checkConfigActions (fuelFor 0) s task c = s.popOrder := checkConfigActions_stable 62 s task c h
  rw [e]
  repeat' split
  all_goals first
    | exact rel_reply t ht s _ _
    | exact (fk_popOrder s).then ((block t ht _).2.2.2.1 _ task c)
    | (rename_i hne; exact absurd rfl hne)

/-- `handle`, with the number `m + 1` of entries a leader's ChangeConfig task is attached to as a parameter -/
theorem handle_rel_m (t : Nat) (ht : t ≠ 0) (s : Node) (op : Op) (ho : OK s) (m : Nat)
    (hcc : ∀ task c, op = .changeConfig task c → s.role = .leader →
      Rel t ((m + 1) * ind task t) s (s.onChangeConfig task c)) :
    Rel t ((submittedRaw op).count t + m * ccInd s op t) s (s.handle op) ∧
    (s.role ≠ .leader → ldrKey (s.handle op) = ldrKey s) := by
  have z : ([] : List Nat).count t + m * 0 = 0 := by rw [List.count_nil]; omega
  have frame : ∀ {x : Node}, FK s x → Rel t (([] : List Nat).count t + m * 0) s x ∧
      (s.role ≠ .leader → ldrKey x = ldrKey s) := fun h => ⟨(h.rel t).cast z, fun _ => h.ldrKey⟩
  have one : ∀ {x : Node} {task : Nat}, RelK t (ind task t) s x →
      Rel t ([task].count t + m * 0) s x ∧ (s.role ≠ .leader → ldrKey x = ldrKey s) :=
    fun h => ⟨h.1.cast (by rw [count_singleton']; omega), fun _ => h.2⟩
  cases op <;> unfold Node.handle <;> dsimp only [submittedRaw, ccInd]
  case vote q => exact frame ((fk_onVoteRequest s q).trans (fk_rpcDone _ _ _))
  case append q => exact frame ((fk_onAppendEntries s q).trans (fk_rpcDone _ _ _))
  case install q => exact frame ((fk_onInstallSnap s q).trans (fk_rpcDone _ _ _))
  case timeoutNow => exact frame ((fk_onTimeoutNow s).trans (fk_rpcDone _ _ _))
  case identity a b c => exact frame (fk_withRpcReply s _)
  case disconnected n =>
    split
    · exact frame (fk_setLeader s 0)
    · exact frame (FK.refl s)
  case timeout =>
    split
    · exact frame (fk_followerTimeout s)
    · exact frame (fk_startElection s)
    · exact frame (fk_checkQuorum s)
  case newEntries b =>
    split
    · rename_i hl
      exact ⟨((block t ht _).1 s b).cast (by omega), fun h => absurd hl h⟩
    · obtain ⟨a, b'⟩ := rejectEntries_relK t ht b s
      exact ⟨a.cast (by omega), fun _ => b'⟩
  case changeConfig task c =>
    split
    · rename_i hl
      refine ⟨(hcc task c rfl hl).cast ?_, fun h => absurd hl h⟩
      rw [count_singleton', Nat.add_mul, Nat.one_mul]; omega
    · exact one (bootstrap_relK t ht s task c)
  case takeSnapshot task th => exact one (onTakeSnapshot_relK t ht s task th)
  case snapRun =>
    obtain ⟨a, b⟩ := snapRun_relK t s ho.2
    exact ⟨a.cast z, fun _ => b⟩
  case snapTaken =>
    obtain ⟨a, b⟩ := onSnapshotTaken_relK t ht s
    exact ⟨a.cast z, fun _ => b⟩
  case waitStable task =>
    split
    · rename_i hl
      exact ⟨(onWaitForStable_rel t ht s task).cast (by rw [count_singleton']; omega), fun h => absurd hl h⟩
    · exact one (relK_reply t ht s task _)
  case transfer task target =>
    split
    · rename_i hl
      exact ⟨(onTransfer_rel t ht s task target ho.1).cast (by rw [count_singleton']; omega), fun h => absurd hl h⟩
    · exact one (relK_reply t ht s task _)
  case voteResult e tm r =>
    split
    · exact frame (fk_onVoteResult s e tm r)
    · exact frame (FK.refl s)
  case replUpdates us =>
    split
    · rename_i hl
      exact ⟨(checkReplUpdates_rel t ht s us).cast z, fun h => absurd hl h⟩
    · exact frame (FK.refl s)
  case transferTimeout =>
    split
    · rename_i hl
      exact ⟨(replyTransfer_rel t ht s _).cast z, fun h => absurd hl.1 h⟩
    · exact frame (FK.refl s)
  case timeoutNowResult a b c =>
    split
    · rename_i hl
      exact ⟨(onTimeoutNowResult_rel t ht s a b c).cast z, fun h => absurd hl.1 h⟩
    · exact frame (FK.refl s)
  case newTermTimeout =>
    split
    · rename_i hl
      refine ⟨((FK.trans ?_ (fk_tryTransfer _)).rel t).cast z, fun h => absurd hl.1 h⟩
      exact fk_withLdr s _ rfl rfl rfl rfl
    · exact frame (FK.refl s)
  case shutdown =>
    obtain ⟨a, b, _⟩ := shutdown_rel t ht s ho
    exact ⟨a.cast z, b⟩

/-- the number of entries a leader's ChangeConfig task gets attached to exists -/
theorem exists_cc (t : Nat) (ht : t ≠ 0) (s : Node) (op : Op) :
    ∃ m, ∀ task c, op = .changeConfig task c → s.role = .leader →
      Rel t ((m + 1) * ind task t) s (s.onChangeConfig task c) := by
  cases op
  case changeConfig task c =>
    obtain ⟨m, hm, r⟩ := onChangeConfig_rel t ht s task c
    refine ⟨m - 1, fun task' c' e _ => ?_⟩
    injection e with e1 e2
    subst e1; subst e2
    exact r.cast (by rw [Nat.sub_add_cancel hm])
  all_goals exact ⟨0, fun task c e => by cases e⟩

/-- `settle`: the role transitions after a handler. While the role whose `init` ran last is not the leader role,
nothing waits in the leader places. -/
theorem settle_rel (t : Nat) (ht : t ≠ 0) (fuel : Nat) : ∀ (x : Node) (cur : Role), LC.need x.role cur ≤ fuel →
    OK x → (cur ≠ .leader → Quiet x) →
    Rel t 0 x (settle fuel x cur) ∧ ((settle fuel x cur).role ≠ .leader → Quiet (settle fuel x cur)) := by
  induction fuel with
  | zero =>
    intro x cur hf ho hq
    have e : x.role = cur := LC.need_zero (Nat.le_zero.mp hf)
    unfold settle
    exact ⟨Rel.refl t x, fun h => hq (by rw [← e]; exact h)⟩
  | succ n ih =>
    intro x cur hf ho hq
    unfold settle
    split
    · rename_i e
      exact ⟨Rel.refl t x, fun h => hq (by rw [← e]; exact h)⟩
    · rename_i hne
      dsimp only
      obtain ⟨a, b, c⟩ := releaseRole_rel t ht x cur ho.1
      have hr : (x.releaseRole cur).role = x.role := LC.role_releaseRole x cur
      have hq1 : Quiet (x.releaseRole cur) := by
        by_cases hc : cur = .leader
        · exact c hc
        · exact (hq hc).congr (b hc)
      have ho1 : OK (x.releaseRole cur) := a.ok ho
      -- the `init` of the new role
      have hinit : Rel t 0 (x.releaseRole cur) (x.releaseRole cur).initRole ∧
          ((x.releaseRole cur).role ≠ .leader → Quiet (x.releaseRole cur).initRole) := by
        unfold Node.initRole
        split
        · exact ⟨Rel.refl t _, fun _ => hq1⟩
        · exact ⟨(fk_startElection _).rel t, fun _ => hq1.congr (fk_startElection _).ldrKey⟩
        · rename_i hl
          exact ⟨leaderInit_rel t ht _ hq1, fun h => absurd hl h⟩
      obtain ⟨i1, i2⟩ := hinit
      have hfuel : LC.need (x.releaseRole cur).initRole.role (x.releaseRole cur).role ≤ n := by
        have hneed : LC.need x.role cur = match x.role with
            | .follower => 1 | .leader => 2 | .candidate => 3 := by
          unfold LC.need; rw [if_neg hne]
          cases x.role <;> rfl
        unfold Node.initRole
        cases hrole : x.role with
        | follower =>
          rw [hr, hrole]; dsimp only; rw [hr, hrole, LC.need_self]; omega
        | candidate =>
          rw [hr, hrole]; dsimp only
          rw [hrole] at hneed hf; dsimp only at hneed
          rcases LC.role_startElection (x.releaseRole cur) with e | e
          · rw [e, hr, hrole, LC.need_self]; omega
          · rw [e]; unfold LC.need; simp; omega
        | leader =>
          rw [hr, hrole]; dsimp only
          rw [hrole] at hneed hf; dsimp only at hneed
          have hc := LC.role_leaderInit (x.releaseRole cur) (by rw [hr, hrole]; exact fun x => by cases x)
          cases hrl : (x.releaseRole cur).leaderInit.role with
          | candidate => exact absurd hrl hc
          | leader => rw [LC.need_self]; omega
          | follower => unfold LC.need; simp; omega
      obtain ⟨j1, j2⟩ := ih _ _ hfuel (i1.ok ho1) i2
      exact ⟨((a.trans i1).trans j1).cast rfl, j2⟩

theorem step_eq_settle (s : Node) (op : Op) (ra : List Nat) (ord : List (List Nat)) (hne : op ≠ .shutdown) :
    s.step op ra ord = settle 6 ((s.begin ra ord).handle op) s.role := by
  cases op <;> first | rfl | exact absurd rfl hne

theorem step_shutdown (s : Node) (ra : List Nat) (ord : List (List Nat)) :
    s.step .shutdown ra ord = (s.begin ra ord).shutdown := rfl

/-- the ledger through one step, with the number `m + 1` of entries a leader's ChangeConfig task is attached to
as a parameter -/
theorem step_rel_m (t : Nat) (ht : t ≠ 0) (s : Node) (op : Op) (ra : List Nat) (ord : List (List Nat))
    (ho : OK s) (hq : s.role ≠ .leader → Quiet s) (m : Nat)
    (hcc : ∀ task c, op = .changeConfig task c → s.role = .leader →
      Rel t ((m + 1) * ind task t) (s.begin ra ord) ((s.begin ra ord).onChangeConfig task c)) :
    OK (s.step op ra ord) ∧ ((s.step op ra ord).role ≠ .leader → Quiet (s.step op ra ord)) ∧
    ((s.step op ra ord).panicked = none →
      led t (s.step op ra ord) = pendCount t s + (submittedRaw op).count t + m * ccInd s op t) := by
  have hb : led t (s.begin ra ord) = pendCount t s := by
    show 0 + pendCount t s = _
    omega
  have hob : OK (s.begin ra ord) := ho
  have hqb : (s.begin ra ord).role ≠ .leader → Quiet (s.begin ra ord) := hq
  obtain ⟨r, hk⟩ := handle_rel_m t ht (s.begin ra ord) op hob m hcc
  by_cases hs : op = .shutdown
  · subst hs
    rw [step_shutdown]
    obtain ⟨a, b, c⟩ := shutdown_rel t ht (s.begin ra ord) hob
    refine ⟨a.ok hob, fun hr => ?_, fun hp => ?_⟩
    · by_cases hl : (s.begin ra ord).role = .leader
      · exact c hl
      · exact (hqb hl).congr (b hl)
    · rw [a.cnt hp, hb]; rfl
  · rw [step_eq_settle s op ra ord hs]
    have hq' : s.role ≠ .leader → Quiet ((s.begin ra ord).handle op) := fun h => (hqb h).congr (hk h)
    obtain ⟨a, b⟩ := settle_rel t ht 6 ((s.begin ra ord).handle op) s.role
      (Nat.le_trans (LC.need_le _ _) (by omega)) (r.ok hob) hq'
    refine ⟨a.ok (r.ok hob), b, fun hp => ?_⟩
    have hc := (r.trans a).cnt hp
    rw [hc, hb]
    show _ = pendCount t s + (submittedRaw op).count t + m * ccInd (s.begin ra ord) op t
    omega

/-- **The ledger through one step.** For a task id `t ≠ 0`, from a state whose ledger is well-formed (`OK`, and
nothing waits in the leader places of a non-leader): the new state is well-formed again, and unless the step
failed, the occurrences of `t` among the answers of the step and the pending places afterwards are: those among
the pending places before, plus those among the submitted tasks, plus `m` more for the task of a ChangeConfig
request handled by a leader (`m + 1` = the number of configuration changes the request was attached to). -/
theorem step_rel (t : Nat) (ht : t ≠ 0) (s : Node) (op : Op) (ra : List Nat) (ord : List (List Nat))
    (ho : OK s) (hq : s.role ≠ .leader → Quiet s) :
    OK (s.step op ra ord) ∧ ((s.step op ra ord).role ≠ .leader → Quiet (s.step op ra ord)) ∧
    ∃ m, (s.step op ra ord).panicked = none →
      led t (s.step op ra ord) = pendCount t s + (submittedRaw op).count t + m * ccInd s op t := by
  obtain ⟨m, hm⟩ := exists_cc t ht (s.begin ra ord) op
  obtain ⟨a, b, c⟩ := step_rel_m t ht s op ra ord ho hq m hm
  exact ⟨a, b, m, c⟩

/-- a ChangeConfig request that carries no action: the exact count -/
theorem step_rel_stable (t : Nat) (ht : t ≠ 0) (s : Node) (task : Nat) (c : Config) (ra : List Nat) (ord : List (List Nat))
    (ho : OK s) (hq : s.role ≠ .leader → Quiet s) (hst : c.isStable = true)
    (hp : (s.step (.changeConfig task c) ra ord).panicked = none) :
    led t (s.step (.changeConfig task c) ra ord) = pendCount t s + [task].count t := by
  have := (step_rel_m t ht s (.changeConfig task c) ra ord ho hq 0 (fun task' c' e _ => by
    injection e with e1 e2
    subst e1; subst e2
    exact (onChangeConfig_stable_rel t ht _ task c hst).cast (by omega))).2.2 hp
  rw [this]
  show pendCount t s + [task].count t + 0 * _ = pendCount t s + [task].count t
  omega

/-! ### one configuration change per request, when no change commits alone

With two anchors (two voters without pending action) every configuration a request can lead to has at least two
voters, so the leader never commits the entry it has just stored inside the same call; the stored configuration
stays uncommitted, `canChangeConfig` is false for the rest of the call, and no second change can start with the
request's task. -/

/-- the fields `canChangeConfig`, the single-voter test and the log end read -/
def ck (s : Node) :=
  (s.configs, s.ldr.transfer.active, s.commitIndex, s.ldr.startIndex, s.lastLogIndex, s.ldr.numVoters, s.ldr.node)

theorem ck_eq {s s' : Node} (h : ck s' = ck s) :
    s'.configs = s.configs ∧ s'.ldr.transfer.active = s.ldr.transfer.active ∧ s'.commitIndex = s.commitIndex ∧
    s'.ldr.startIndex = s.ldr.startIndex ∧ s'.lastLogIndex = s.lastLogIndex ∧
    s'.ldr.numVoters = s.ldr.numVoters ∧ s'.ldr.node = s.ldr.node := by
  unfold ck at h
  simp only [Prod.mk.injEq] at h
  exact h

theorem canChange_congr {s s' : Node} (h : ck s' = ck s) : s'.canChangeConfig = s.canChangeConfig := by
  obtain ⟨a, b, c, d, _⟩ := ck_eq h
  unfold Node.canChangeConfig
  rw [a, b, c, d]

theorem ck_panic (s : Node) (site : String) : ck (s.panic site) = ck s := by
  unfold Node.panic; split <;> rfl

theorem ck_reply (s : Node) (t : Nat) (r : String) : ck (s.reply t r) = ck s := by
  unfold Node.reply; split <;> rfl

theorem fsmFrame_ck : FsmFrame ck := ⟨ck_panic, ck_reply, fun _ _ => rfl⟩

theorem ck_assert (s : Node) (b : Bool) (site : String) : ck (s.assert b site) = ck s := fsmFrame_ck.assert_eq s b site

theorem ck_applyCommittedL (s : Node) : ck s.applyCommittedL = ck s := by
  unfold Node.applyCommittedL
  dsimp only
  rw [fsmFrame_ck.fsmApply_eq]
  rfl

theorem ck_notifyFlr (s : Node) : ck s.notifyFlr = ck s := by
  unfold Node.notifyFlr; split
  · rfl
  · split
    · rfl
    · exact ck_panic s _

theorem ck_setRepl (s : Node) (r : Repl) : ck (s.setRepl r) = ck s := rfl

theorem ck_addReplication (s : Node) (n : CNode) : ck (s.addReplication n) = ck s := by
  unfold Node.addReplication
  dsimp only
  rw [ck_setRepl]
  split
  · exact ck_assert s _ _
  · rw [ck_panic]; exact ck_assert s _ _

theorem ck_foldl {β : Type} (f : Node → β → Node) (hf : ∀ s x, ck (f s x) = ck s) (xs : List β) (s : Node) :
    ck (xs.foldl f s) = ck s := by
  induction xs generalizing s with
  | nil => rfl
  | cons x xs ih => rw [List.foldl_cons, ih, hf]

/-- a frame step that also leaves `ck` alone -/
structure BL (s s' : Node) : Prop where
  fk : FK s s'
  ck : ck s' = ck s

theorem BL.refl (s : Node) : BL s s := ⟨FK.refl s, rfl⟩
theorem BL.trans {s s' s'' : Node} (h₁ : BL s s') (h₂ : BL s' s'') : BL s s'' :=
  ⟨h₁.fk.trans h₂.fk, h₂.ck.trans h₁.ck⟩
theorem bl_panic (s : Node) (site : String) : BL s (s.panic site) := ⟨fk_panic s site, ck_panic s site⟩
theorem bl_setRepl (s : Node) (r : Repl) : BL s (s.setRepl r) := ⟨fk_setRepl s r, rfl⟩
theorem bl_popOrder (s : Node) : BL s s.popOrder := ⟨fk_popOrder s, rfl⟩

theorem bl_foldl {β : Type} (f : Node → β → Node) (P : Node → Prop) (hP : ∀ s s', P s → BL s s' → P s')
    (hf : ∀ s x, P s → BL s (f s x)) (xs : List β) (s : Node) (hs : P s) : BL s (xs.foldl f s) := by
  induction xs generalizing s with
  | nil => exact BL.refl s
  | cons x xs ih => exact (hf s x hs).trans (ih _ (hP _ _ hs (hf s x hs)))

/-- `checkConfigAction` when configuration changes are blocked: bookkeeping of rounds only -/
theorem ca_blocked (fuel : Nat) (s : Node) (task : Nat) (c : Config) (id : Nat) (h : s.canChangeConfig = false) :
    BL s (checkConfigAction fuel s task c id) := by
  cases fuel with
  | zero => unfold checkConfigAction; exact bl_panic s _
  | succ n =>
    unfold checkConfigAction
    dsimp only
    have hb : ∀ r, (s.setRepl r).canChangeConfig = false := fun r => by rw [canChange_congr (ck_setRepl s r)]; exact h
    repeat' split
    all_goals first
      | exact BL.refl s
      | exact bl_setRepl s _
      | (exfalso; simp [hb] at *)

/-- …and `checkConfigActions` -/
theorem cas_blocked (fuel : Nat) (s : Node) (task : Nat) (c : Config) (h : s.canChangeConfig = false) :
    BL s (checkConfigActions fuel s task c) := by
  cases fuel with
  | zero => unfold checkConfigActions; exact bl_panic s _
  | succ n =>
    unfold checkConfigActions
    extract_lets nd c1 c2 r
    have hr : r = (s, c) := by
      unfold r
      rw [if_neg (by rw [h]; exact fun e => Bool.noConfusion e.1)]
    rw [hr]
    dsimp only
    refine (bl_popOrder s).trans (bl_foldl _ (fun x => x.canChangeConfig = false)
      (fun x x' hx hb => by rw [canChange_congr hb.ck]; exact hx) ?_ _ _ (by rw [canChange_congr (bl_popOrder s).ck]; exact h))
    intro x a hx
    split
    · exact ca_blocked n x task c a hx
    · exact BL.refl x

/-- the outcome of a call that stored a configuration with `n ≥ 2` voters at index `L`: the step has failed, or
configuration changes are blocked -/
def Blk (n L : Nat) (s : Node) : Prop :=
  s.panicked ≠ none ∨ (s.canChangeConfig = false ∧ s.lastLogIndex = L ∧ s.ldr.numVoters = n)

theorem Blk.of_ck {n L : Nat} {s s' : Node} (h : Blk n L s) (hm : s.panicked ≠ none → s'.panicked ≠ none)
    (e : ck s' = ck s) : Blk n L s' := by
  rcases h with h | h
  · exact Or.inl (hm h)
  · obtain ⟨_, _, _, _, e5, e6, _⟩ := ck_eq e
    exact Or.inr ⟨by rw [canChange_congr e]; exact h.1, by rw [e5]; exact h.2.1, by rw [e6]; exact h.2.2⟩

theorem Blk.bl {n L : Nat} {s s' : Node} (h : Blk n L s) (b : BL s s') : Blk n L s' := h.of_ck b.fk.mono b.ck

theorem Blk.failed {n L : Nat} {s : Node} (h : s.panicked ≠ none) : Blk n L s := Or.inl h

/-- `leader.changeConfig` with a configuration whose index differs from the latest one's: afterwards the latest
configuration is not committed -/
theorem changeConfigL_blk (fuel : Nat) (s : Node) (c : Config) (hidx : c.index ≠ s.configs.latest.index) :
    Blk c.numVoters s.lastLogIndex (changeConfigL fuel s c) := by
  cases fuel with
  | zero => unfold changeConfigL; exact Blk.failed (panic_panicked_ne s _)
  | succ n =>
    unfold changeConfigL
    extract_lets src1 s1 s2 src2 s3 s4
    by_cases hp : s.panicked = none
    · have h2 : Blk c.numVoters s.lastLogIndex s2 := by
        refine Or.inr ⟨?_, ?_, ?_⟩
        · have hcfg : s2.configs = { committed := s.configs.latest, latest := c } := by
            unfold s2 Node.changeConfigR; dsimp only; split <;> rfl
          unfold Node.canChangeConfig Configs.isCommitted
          rw [hcfg]
          have : (c.index == s.configs.latest.index) = false := by simpa using hidx
          simp only [this, Bool.false_and]
        · unfold s2 Node.changeConfigR; dsimp only; split <;> rfl
        · unfold s2 Node.changeConfigR; dsimp only; split <;> rfl
      have b3 : BL s2 s3 := ⟨fk_withLdr s2 _ rfl rfl rfl rfl, rfl⟩
      have b4 : BL s3 s4 := by
        refine ⟨fk_foldl _ ?_ _ _, ck_foldl _ ?_ _ _⟩
        · intro x nd; split
          · exact FK.refl x
          · split
            · exact fk_addReplication _ _
            · exact fk_setRepl _ _
        · intro x nd; split
          · rfl
          · split
            · exact ck_addReplication _ _
            · rfl
      have h4 := (h2.bl b3).bl b4
      rcases h4 with h4 | h4
      · exact Blk.failed (((block 1 (by omega) n).2.2.2.2.1 s4 0 _).rel0 (by omega) |>.mono h4)
      · exact Blk.bl (Or.inr h4) (cas_blocked n s4 0 _ h4.1)
    · have h4 : FK s s4 := by
        have h1 : FK s s1 := fk_withLdr s _ rfl rfl rfl rfl
        have h2 : FK s s2 := h1.trans (fk_changeConfigR _ _)
        have h3 : FK s s3 := h2.trans (fk_withLdr _ _ rfl rfl rfl rfl)
        refine h3.trans (fk_foldl _ ?_ _ _)
        intro x nd; split
        · exact FK.refl x
        · split
          · exact fk_addReplication _ _
          · exact fk_setRepl _ _
      exact Blk.failed (((block 1 (by omega) n).2.2.2.2.1 s4 0 _).rel0 (by omega) |>.mono (h4.mono hp))

theorem storeItems_nil (fuel : Nat) (s : Node) : storeItems fuel s [] = s := by
  unfold storeItems; rfl

theorem fk_beginNotify (s : Node) : FK s s.beginFinishedRounds.notifyFlr :=
  (fk_beginFinishedRounds s).trans (fk_notifyFlr _)

theorem ck_beginNotify (s : Node) : ck s.beginFinishedRounds.notifyFlr = ck s := by
  rw [ck_notifyFlr]; rfl

/-- `doChangeConfig` by a leader that may change the configuration, is a voter, and whose new configuration has at
least two voters: the entry is stored at the next index and stays uncommitted -/
theorem dc_blk (fuel : Nat) (s : Node) (task : Nat) (c : Config) (hc : s.canChangeConfig = true)
    (hv : s.ldr.node.voter = true) (hl : s.configs.latest.index ≤ s.lastLogIndex) (h2 : 2 ≤ c.numVoters) :
    Blk c.numVoters (s.lastLogIndex + 1) (doChangeConfig fuel s task c) := by
  have ha : s.ldr.transfer.active = false := by
    unfold Node.canChangeConfig at hc
    simp only [Bool.and_eq_true, Bool.not_eq_true', decide_eq_true_eq] at hc
    exact hc.1.2
  cases fuel with
  | zero => unfold doChangeConfig; exact Blk.failed (panic_panicked_ne s _)
  | succ f =>
    unfold doChangeConfig
    cases f with
    | zero => unfold storeEntry; exact Blk.failed (panic_panicked_ne s _)
    | succ f' =>
      unfold storeEntry
      extract_lets lastIndex s1 s2 s3 s4
      have h1 : Blk c.numVoters (s.lastLogIndex + 1) s1 := by
        unfold s1
        cases f' with
        | zero => unfold storeItems; exact Blk.failed (panic_panicked_ne s _)
        | succ f'' =>
          unfold storeItems
          dsimp only
          rw [storeItems_nil, if_neg (by rw [ha]; exact Bool.false_ne_true), if_neg (by rw [hv]; decide),
            if_pos (by decide), if_pos rfl]
          unfold QItem.toEntry Entry.config?
          dsimp only
          rw [if_pos rfl]
          simp only [Option.map_some]
          refine changeConfigL_blk f'' _ _ ?_
          rw [NoPanic.appendEntry_configs]
          show s.lastLogIndex + 1 ≠ s.configs.latest.index
          omega
      have hm12 : s1.panicked ≠ none → s2.panicked ≠ none := by
        intro h; unfold s2; split
        · split
          · exact (applyCommittedL_rel 1 (by omega) s1).mono h
          · exact h
        · exact h
      have hk12 : ck s2 = ck s1 := by
        unfold s2; split
        · split
          · exact ck_applyCommittedL s1
          · rfl
        · rfl
      have h2' : Blk c.numVoters (s.lastLogIndex + 1) s2 := h1.of_ck hm12 hk12
      have h4 : Blk c.numVoters (s.lastLogIndex + 1) s4 := h2'.of_ck (fk_beginNotify s2).mono (ck_beginNotify s2)
      split
      · split
        · rename_i hsingle
          rcases h4 with h4 | h4
          · exact Blk.failed (((block 1 (by omega) f').2.2.2.2.2.2.2 s4).mono h4)
          · rw [h4.2.2] at hsingle; omega
        · exact h4
      · exact h2'

/-- what `doChangeConfig` needs of the state: a leader whose latest configuration is committed is a voter of it
(by its cached own entry), and the latest configuration is in the log -/
def Hs (s : Node) : Prop :=
  (s.configs.isCommitted = true → s.ldr.node.voter = true) ∧ s.configs.latest.index ≤ s.lastLogIndex

theorem Hs.congr {s s' : Node} (h : Hs s) (e : ck s' = ck s) : Hs s' := by
  obtain ⟨a, _, _, _, b, _, c⟩ := ck_eq e
  unfold Hs; rw [a, b, c]; exact h

theorem isCommitted_of_canChange {s : Node} (h : s.canChangeConfig = true) : s.configs.isCommitted = true := by
  unfold Node.canChangeConfig at h
  simp only [Bool.and_eq_true] at h
  exact h.1.1

/-- a change was started after the log end was `L`: the step has failed, or changes are blocked and the log grew -/
def After (L : Nat) (x : Node) : Prop := x.panicked ≠ none ∨ (x.canChangeConfig = false ∧ L < x.lastLogIndex)

theorem After.of_blk {n L : Nat} {x : Node} (h : Blk n (L + 1) x) : After L x := by
  rcases h with h | h
  · exact Or.inl h
  · exact Or.inr ⟨h.1, by rw [h.2.1]; omega⟩

/-- the configuration `checkConfigAction` proposes keeps the anchors -/
theorem anchored_actionConfig {id : Nat} {c c' : Config} {li : Nat} {st : Repl} (h : NoPanic.AnchoredT true c)
    (hn : (c.get id).nextAction ≠ actNone)
    (ha : actionConfig li c (c.get id) (c.get id).nextAction st = some c') : NoPanic.AnchoredT true c' := by
  have hid : (c.get id).id = id := by
    rcases NoPanic.get_id c id with e | e
    · exact e
    · rw [e] at hn; exact absurd NoPanic.nextAction_default hn
  unfold actionConfig at ha
  rw [hid] at ha
  have hset : ∀ n' : CNode, n'.id = id → NoPanic.AnchoredT true (c.set n') :=
    fun n' e => h.set n' (Or.inl (by rw [e]; exact hn))
  have herase : NoPanic.AnchoredT true (c.erase id) := h.erase id (Or.inl hn)
  split at ha
  · injection ha with ha; rw [← ha]; exact hset _ rfl
  · split at ha
    · split at ha
      · injection ha with ha; rw [← ha]; exact herase
      · cases ha
    · split at ha
      · injection ha with ha; rw [← ha]; exact herase
      · split at ha
        · injection ha with ha; rw [← ha]; exact hset _ rfl
        · cases ha

theorem dc_after (t : Nat) (ht : t ≠ 0) (fuel : Nat) (s : Node) (task : Nat) (c : Config) (hH : Hs s)
    (hc : s.canChangeConfig = true) (hA : NoPanic.AnchoredT true c) :
    Rel t (ind task t) s (doChangeConfig fuel s task c) ∧ After s.lastLogIndex (doChangeConfig fuel s task c) :=
  ⟨(block t ht fuel).2.2.2.1 s task c,
   After.of_blk (dc_blk fuel s task c hc (hH.1 (isCommitted_of_canChange hc)) hH.2
     (NoPanic.numVoters_of_anchored2 (hA.2 rfl)))⟩

/-- `checkConfigAction`: nothing but round bookkeeping, or exactly one configuration change after which changes
are blocked -/
theorem ca_once (t : Nat) (ht : t ≠ 0) (fuel : Nat) (s : Node) (task : Nat) (c : Config) (id : Nat) (hH : Hs s)
    (hA : NoPanic.AnchoredT true c) :
    BL s (checkConfigAction fuel s task c id) ∨
    (Rel t (ind task t) s (checkConfigAction fuel s task c id) ∧
      After s.lastLogIndex (checkConfigAction fuel s task c id)) := by
  cases fuel with
  | zero => unfold checkConfigAction; exact Or.inl (bl_panic s _)
  | succ n =>
    unfold checkConfigAction
    dsimp only
    split
    · exact Or.inl (BL.refl s)
    · split
      · exact Or.inl (BL.refl s)
      · rename_i hact
        split
        · exact Or.inl (bl_setRepl s _)
        · split
          · exact Or.inl (bl_setRepl s _)
          · rename_i hcan
            split
            · rename_i c'' hac
              right
              have hcan' : (s.setRepl (roundStep s.lastLogIndex (c.get id).nextAction ‹Repl›).1).canChangeConfig = true := by
                simpa using hcan
              have hH1 : Hs (s.setRepl (roundStep s.lastLogIndex (c.get id).nextAction ‹Repl›).1) := hH.congr rfl
              obtain ⟨r, a⟩ := dc_after t ht n _ task c'' hH1 hcan' (anchored_actionConfig hA hact hac)
              exact ⟨(fk_setRepl s _).then r, a⟩
            · exact Or.inl (bl_setRepl s _)

/-- after a change was started: `checkConfigAction` starts no other -/
theorem ca_after (t : Nat) (ht : t ≠ 0) (fuel : Nat) (x : Node) (task : Nat) (c : Config) (id : Nat) (L : Nat)
    (h : After L x) :
    Rel t 0 x (checkConfigAction fuel x task c id) ∧ After L (checkConfigAction fuel x task c id) := by
  rcases h with h | h
  · obtain ⟨m, r, _⟩ := (block t ht fuel).2.2.2.2.2.1 x task c id
    exact ⟨⟨r.mono, fun hp => absurd hp (r.mono h), r.ok⟩, Or.inl (r.mono h)⟩
  · have b := ca_blocked fuel x task c id h.1
    refine ⟨b.fk.rel t, Or.inr ⟨by rw [canChange_congr b.ck]; exact h.1, ?_⟩⟩
    rw [(ck_eq b.ck).2.2.2.2.1]; exact h.2

theorem fold_after (t : Nat) (ht : t ≠ 0) (n : Nat) (task : Nat) (c : Config) (L : Nat) (xs : List Nat) (x : Node)
    (h : After L x) :
    Rel t 0 x (xs.foldl (fun s id => match s.findRepl? id with
      | some _ => checkConfigAction n s task c id
      | none => s) x) ∧
    After L (xs.foldl (fun s id => match s.findRepl? id with
      | some _ => checkConfigAction n s task c id
      | none => s) x) := by
  induction xs generalizing x with
  | nil => exact ⟨Rel.refl t x, h⟩
  | cons a as ih =>
    rw [List.foldl_cons]
    have h1 : Rel t 0 x (match x.findRepl? a with
        | some _ => checkConfigAction n x task c a
        | none => x) ∧ After L (match x.findRepl? a with
        | some _ => checkConfigAction n x task c a
        | none => x) := by
      split
      · exact ca_after t ht n x task c a L h
      · exact ⟨Rel.refl t x, h⟩
    obtain ⟨r1, a1⟩ := h1
    obtain ⟨r2, a2⟩ := ih _ a1
    exact ⟨(r1.trans r2).cast rfl, a2⟩

theorem fold_once (t : Nat) (ht : t ≠ 0) (n : Nat) (task : Nat) (c : Config) (hA : NoPanic.AnchoredT true c)
    (xs : List Nat) (x : Node) (hH : Hs x) :
    BL x (xs.foldl (fun s id => match s.findRepl? id with
      | some _ => checkConfigAction n s task c id
      | none => s) x) ∨
    (Rel t (ind task t) x (xs.foldl (fun s id => match s.findRepl? id with
      | some _ => checkConfigAction n s task c id
      | none => s) x) ∧
     After x.lastLogIndex (xs.foldl (fun s id => match s.findRepl? id with
      | some _ => checkConfigAction n s task c id
      | none => s) x)) := by
  induction xs generalizing x with
  | nil => exact Or.inl (BL.refl x)
  | cons a as ih =>
    rw [List.foldl_cons]
    have h1 : BL x (match x.findRepl? a with
        | some _ => checkConfigAction n x task c a
        | none => x) ∨
        (Rel t (ind task t) x (match x.findRepl? a with
        | some _ => checkConfigAction n x task c a
        | none => x) ∧ After x.lastLogIndex (match x.findRepl? a with
        | some _ => checkConfigAction n x task c a
        | none => x)) := by
      split
      · exact ca_once t ht n x task c a hH hA
      · exact Or.inl (BL.refl x)
    rcases h1 with b | ⟨r, af⟩
    · have hl : (match x.findRepl? a with
          | some _ => checkConfigAction n x task c a
          | none => x).lastLogIndex = x.lastLogIndex := (ck_eq b.ck).2.2.2.2.1
      rcases ih _ (hH.congr b.ck) with b2 | ⟨r2, a2⟩
      · exact Or.inl (b.trans b2)
      · exact Or.inr ⟨b.fk.then r2, by rw [← hl]; exact a2⟩
    · obtain ⟨r2, a2⟩ := fold_after t ht n task c x.lastLogIndex as _ af
      exact Or.inr ⟨(r.trans r2).cast rfl, a2⟩

/-- `checkConfigActions` with two anchors: no configuration change, or exactly one -/
theorem cas_once (t : Nat) (ht : t ≠ 0) (fuel : Nat) (s : Node) (task : Nat) (c : Config) (hH : Hs s)
    (hA : NoPanic.AnchoredT true c) :
    BL s (checkConfigActions fuel s task c) ∨
    (Rel t (ind task t) s (checkConfigActions fuel s task c) ∧
      After s.lastLogIndex (checkConfigActions fuel s task c)) := by
  cases fuel with
  | zero => unfold checkConfigActions; exact Or.inl (bl_panic s _)
  | succ n =>
    unfold checkConfigActions
    extract_lets nd c1 c2 r
    have hr : (BL s r.1 ∧ r.2 = c) ∨ (Rel t (ind task t) s r.1 ∧ After s.lastLogIndex r.1) := by
      unfold r
      split
      · rename_i hcond
        have hcan : s.canChangeConfig = true := hcond.1
        have hact : (c.get s.nid).action ≠ actNone := hcond.2
        have hid : (c.get s.nid).id = s.nid := by
          rcases NoPanic.get_id c s.nid with e | e
          · exact e
          · rw [e] at hact; exact absurd rfl hact
        split
        · right
          refine dc_after t ht n s task c1 hH hcan ?_
          exact hA.set _ (Or.inr (by show (c.get (c.get s.nid).id).action ≠ actNone; rw [hid]; exact hact))
        · split
          · right
            exact dc_after t ht n s task c2 hH hcan (hA.erase s.nid (Or.inr hact))
          · exact Or.inl ⟨bl_panic s _, rfl⟩
      · exact Or.inl ⟨BL.refl s, rfl⟩
    rcases hr with ⟨b, e⟩ | ⟨r1, a1⟩
    · rw [e]
      have bp : BL s r.1.popOrder := b.trans (bl_popOrder _)
      have hl : r.1.popOrder.lastLogIndex = s.lastLogIndex := (ck_eq bp.ck).2.2.2.2.1
      rcases fold_once t ht n task c hA r.1.replOrder r.1.popOrder (hH.congr bp.ck) with b2 | ⟨r2, a2⟩
      · exact Or.inl (bp.trans b2)
      · exact Or.inr ⟨bp.fk.then r2, by rw [← hl]; exact a2⟩
    · have a1' : After s.lastLogIndex r.1.popOrder := by
        rcases a1 with h | h
        · exact Or.inl h
        · exact Or.inr h
      obtain ⟨r2, a2⟩ := fold_after t ht n task r.2 s.lastLogIndex r.1.replOrder r.1.popOrder a1'
      exact Or.inr ⟨((r1.fk (fk_popOrder _)).trans r2).cast rfl, a2⟩

/-- **`leader.onChangeConfig` with two anchors**: the task is answered at once, or attached to exactly one
configuration entry -/
theorem onChangeConfig_two_rel (t : Nat) (ht : t ≠ 0) (s : Node) (task : Nat) (c : Config) (hH : Hs s)
    (hu : NoPanic.UserCfg true s.nid c) : Rel t (ind task t) s (s.onChangeConfig task c) := by
  unfold Node.onChangeConfig
  dsimp only
  split
  · exact rel_reply t ht s _ _
  · split
    · exact rel_reply t ht s _ _
    · split
      · exact rel_reply t ht s _ _
      · split
        · exact rel_reply t ht s _ _
        · split
          · exact rel_reply t ht s _ _
          · split
            · exact rel_reply t ht s _ _
            · split
              · exact rel_reply t ht s _ _
              · rename_i h7
                have h7' : c.nodes.any (fun n => n.voter && n.action == actNone) = true := by simpa using h7
                have hA : NoPanic.AnchoredT true c := NoPanic.anchoredT_of_sorted hu.1 h7' hu.2.2
                have hDC := fun x => (block t ht (fuelFor 1)).2.2.2.1 x task c
                rcases cas_once t ht (fuelFor 0) s task c hH hA with b | ⟨r, a⟩
                · rw [if_pos (ck_eq b.ck).2.2.2.2.1]
                  exact b.fk.then (hDC _)
                · rcases a with hp | ⟨_, hlt⟩
                  · split
                    · exact ⟨fun h => (hDC _).mono (r.mono h), fun e => absurd e ((hDC _).mono hp),
                        fun o => (hDC _).ok (r.ok o)⟩
                    · exact r
                  · rw [if_neg (by omega)]
                    exact r

/-- the ledger through one step of a leader with two anchors handling any operation: the exact count -/
theorem step_rel_two (t : Nat) (ht : t ≠ 0) (s : Node) (op : Op) (ra : List Nat) (ord : List (List Nat))
    (ho : OK s) (hq : s.role ≠ .leader → Quiet s)
    (hcc : ∀ task c, op = .changeConfig task c → s.role = .leader → Hs s ∧ NoPanic.UserCfg true s.nid c)
    (hp : (s.step op ra ord).panicked = none) :
    led t (s.step op ra ord) = pendCount t s + (submittedRaw op).count t := by
  have := (step_rel_m t ht s op ra ord ho hq 0 (fun task c e hl => by
    obtain ⟨a, b⟩ := hcc task c e hl
    exact (onChangeConfig_two_rel t ht (s.begin ra ord) task c a b).cast (by omega))).2.2 hp
  rw [this]; omega

end TL
end Node
end Raft
