/-
M4 — the handlers of the raft goroutine, one function per case of `stateLoop`'s select and per RPC.
Each function follows the Go statement order; comments name the Go function.  Core Lean only.
-/
import RaftVerif.Model.Node

namespace Raft
namespace Node

/-! ## FSM goroutine (fsm.go), processed synchronously: the harness drains the FIFO after every step -/

/-- Apply log entries `fsm.index+1 .. upto` from the log view (`stateMachine.onApply`, first loop). -/
def fsmApplyLogTo (s : Node) (upto : Nat) : Node :=
  if upto ≤ s.fsm.index then s
  else if s.fsm.index < s.log.prev then s.panic "fsm.Get"
  else
    let es := (s.log.entries.drop (s.fsm.index - s.log.prev)).take (upto - s.fsm.index)
    if es.length ≠ upto - s.fsm.index then s.panic "fsm.view"
    else
      let ups := (es.filter (·.typ == etUpdate)).map (·.data)
      let lastTerm := (es.getLast?.map (·.term)).getD s.fsm.term
      let cfg := ((es.filterMap (·.config?)).getLast?).getD s.fsm.config
      let s := if es.any (fun e => e.typ == etConfig && e.config?.isNone) then s.panic "fsm.configDecode" else s
      (s.withFsm ({ index := upto, term := lastTerm, applied := s.fsm.applied ++ ups, config := cfg }))

/-- Second loop of `onApply`: the queue items handed over by the leader. -/
def fsmApplyItems (s : Node) : List QItem → Node
  | [] => s
  | q :: qs =>
    let s := s.assert (q.index == s.fsm.index + 1) "fsm.assertNext"
    let s :=
      if q.typ = etUpdate then
        (s.withFsm ({ s.fsm with applied := s.fsm.applied ++ [q.data] }))
      else s
    let resp :=
      if q.typ = etRead ∨ q.typ = etDirtyRead ∨ q.typ = etUpdate then s!"val:{s.fsm.applied.length}"
      else "ok"
    let s := match q.toEntry.config? with
      | some c => s.withFsm { s.fsm with config := c }
      | none => s
    let s := if isLogEntryTyp q.typ then (s.withFsm ({ s.fsm with index := q.index, term := q.term })) else s
    fsmApplyItems (s.reply q.task resp) qs

/-- `fsmApply{neHead, log: ViewAt(PrevIndex, commitIndex)}` sent and processed. -/
def fsmApply (s : Node) (items : List QItem) : Node :=
  -- ViewAt: panics if commitIndex > LastIndex, nil if PrevIndex > commitIndex (nil deref in onApply)
  if s.commitIndex > s.log.last then s.panic "logpanic.ViewAt"
  else if s.log.prev > s.commitIndex then s.panic "fsm.nilView"
  else
    let front := match items with
      | [] => s.commitIndex + 1
      | q :: _ => q.index
    let s := s.fsmApplyLogTo (front - 1)
    let s := s.fsmApplyItems items
    s.assert (s.fsm.index == s.commitIndex) "fsm.assertCommit"

/-- `Raft.applyCommitted` (follower side). -/
def applyCommitted (s : Node) : Node := s.fsmApply []

/-! ## configuration bookkeeping (config.go) -/

/-- `Raft.changeConfig`. -/
def changeConfigR (s : Node) (c : Config) : Node :=
  let s := if s.leader ≠ 0 ∧ !c.isVoter s.leader then s.setLeader 0 else s
  { s with configs := { committed := s.configs.latest, latest := c } }

/-- `Raft.commitConfig`. -/
def commitConfig (s : Node) : Node :=
  let s := if s.leader ≠ 0 ∧ !s.configs.latest.isVoter s.leader then s.setLeader 0 else s
  { s with configs := { s.configs with committed := s.configs.latest } }

/-- `Raft.revertConfig`. -/
def revertConfig (s : Node) : Node :=
  { s with configs := { s.configs with latest := s.configs.committed } }

/-- `Raft.setCommitIndex` after `commitConfig`: a leader that is no longer a voter steps down. -/
def stepDownIfNotVoter (s : Node) : Node :=
  if s.role = .leader ∧ !s.configs.latest.isVoter s.nid then (s.setRole .follower).setLeader 0 else s

/-- `Raft.setCommitIndex` after `commitConfig`: a node that is no longer part of the cluster closes itself. -/
def closeIfRemoved (s : Node) : Node :=
  if s.shutdownOnRemove ∧ !s.configs.latest.has s.nid then s.doClose "nodeRemoved" else s

def afterConfigCommit (s : Node) : Node := s.stepDownIfNotVoter.closeIfRemoved

/-- `Raft.setCommitIndex`; second component: configCommitted. -/
def setCommitIndexR (s : Node) (i : Nat) : Node × Bool :=
  if !s.configs.isCommitted ∧ s.configs.latest.index ≤ i then
    ((s.withCommitIndex i).commitConfig.afterConfigCommit, true)
  else (s.withCommitIndex i, false)

/-! ## leader (leader.go, changeconfig.go) -/

def canChangeConfig (s : Node) : Bool :=
  s.configs.isCommitted && !s.ldr.transfer.active && decide (s.commitIndex ≥ s.ldr.startIndex)

def findRepl? (s : Node) (id : Nat) : Option Repl := s.ldr.repls.find? (·.id == id)

def insertRepl (r : Repl) : List Repl → List Repl
  | [] => [r]
  | m :: ms =>
    if r.id < m.id then r :: m :: ms
    else if r.id = m.id then r :: ms
    else m :: insertRepl r ms

def setRepl (s : Node) (r : Repl) : Node :=
  (s.withLdr ({ s.ldr with repls := insertRepl r s.ldr.repls }))

/-- Iteration order over `l.repls`: the oracle order first, then whatever it omitted. -/
def replOrder (s : Node) : List Nat :=
  let ids := s.ldr.repls.map (·.id)
  let order := (s.orders.head?).getD []
  (order.filter ids.contains).eraseDups ++ ids.filter (fun i => !order.contains i)

/-- `leader.addReplication` (the replication goroutine itself is M5). -/
def addReplication (s : Node) (n : CNode) : Node :=
  let s := s.assert (n.id != s.nid) "assert.addReplication"
  let s := if s.log.viewOk s.ldr.removeLTE s.lastLogIndex then s else s.panic "nilView"
  s.setRepl { id := n.id, node := n, removeLTE := s.ldr.removeLTE }

/-- `leader.notifyFlr`: builds `ViewAt(removeLTE, lastLogIndex)` for every replication. -/
def notifyFlr (s : Node) : Node :=
  if s.ldr.repls.isEmpty then s
  else if s.log.viewOk s.ldr.removeLTE s.lastLogIndex then s else s.panic "nilView"

/-- `leader.beginFinishedRounds`. -/
def beginFinishedRounds (s : Node) : Node :=
  (s.withLdr ({ s.ldr with repls := s.ldr.repls.map (fun r =>
      match r.round with
      | some rd => if rd.finished
          then { r with round := some { rd with ordinal := rd.ordinal + 1, lastIndex := s.lastLogIndex,
                                                finished := false, aged := false } }
          else r
      | none => r) }))

/-- The match index the leader attributes to each VOTER of the latest configuration: its own last
log index for itself, the replication status' matchIndex for the others (non-voters do not occur). -/
def voterMatches (s : Node) : List Nat :=
  (s.configs.latest.nodes.filter (·.voter)).map (fun n =>
    if n.id = s.nid then s.lastLogIndex else ((s.findRepl? n.id).map (·.matchIndex)).getD 0)

/-- `leader.majorityMatchIndex`; second component: no nil dereference / index out of range. -/
def majorityMatchIndex (s : Node) : Nat × Bool :=
  if s.ldr.numVoters = 1 ∧ s.ldr.node.voter then (s.lastLogIndex, true)
  else
    let vs := s.configs.latest.nodes.filter (·.voter)
    let missing := vs.any (fun n => n.id != s.nid && (s.findRepl? n.id).isNone)
    let ms := s.voterMatches
    let sorted := ms.mergeSort geB
    let quorum := ms.length / 2 + 1
    ((sorted[quorum - 1]?).getD 0, !missing && s.configs.latest.nodes.length > 0)

/-- Split the leader queue as `leader.applyCommitted` does. -/
def splitQueue (ci : Nat) : List QItem → List QItem × List QItem
  | [] => ([], [])
  | q :: qs =>
    if q.index ≤ ci ∨ (q.index = ci + 1 ∧ !isLogEntryTyp q.typ) then
      let r := splitQueue ci qs
      (q :: r.1, r.2)
    else ([], q :: qs)

/-- `leader.applyCommitted`. -/
def applyCommittedL (s : Node) : Node :=
  let sp := splitQueue s.commitIndex s.ldr.queue
  let s := (s.withLdr ({ s.ldr with queue := sp.2 }))
  s.fsmApply sp.1

/-- "start or stop rounds" of `checkConfigAction`. -/
def startRound (lastLogIndex : Nat) (action : Nat) (st : Repl) : Repl :=
  if action ≠ actPromote then { st with round := none }
  else match st.round with
    | none => { st with round := some { ordinal := 1, lastIndex := lastLogIndex } }
    | some _ => st

/-- "finish round if completed, start new round if necessary" for a round `rd`; second component: return early. -/
def finishRound (lastLogIndex : Nat) (st : Repl) (rd : Round) : Repl × Bool :=
  let rd := if !rd.finished ∧ st.matchIndex ≥ rd.lastIndex then { rd with finished := true } else rd
  if !rd.finished then ({ st with round := some rd }, true)
  else if lastLogIndex > st.matchIndex ∧ rd.aged then
    ({ st with round := some { rd with ordinal := rd.ordinal + 1, lastIndex := lastLogIndex,
                                       finished := false, aged := false } }, true)
  else ({ st with round := some rd }, false)

/-- Round bookkeeping of `checkConfigAction`; second component: return early. -/
def roundStep (lastLogIndex : Nat) (action : Nat) (st : Repl) : Repl × Bool :=
  let st := startRound lastLogIndex action st
  match st.round with
  | none => (st, false)
  | some rd => finishRound lastLogIndex st rd

/-- "perform configAction" of `checkConfigAction`: the configuration to propose, if any. -/
def actionConfig (latestIndex : Nat) (config : Config) (n : CNode) (action : Nat) (st : Repl) : Option Config :=
  if action = actPromote then some (config.set { n with voter := true, action := actNone })
  else if action = actRemove then
    (if st.matchIndex ≥ latestIndex then some (config.erase n.id) else none)
  else if action = actForceRemove then some (config.erase n.id)
  else if action = actDemote then
    some (config.set { n with voter := false, action := if n.action = actDemote then actNone else n.action })
  else none

mutual

/-- `leader.storeEntry` for one batch. -/
def storeEntry (fuel : Nat) (s : Node) (batch : List QItem) : Node :=
  match fuel with
  | 0 => s.panic "fuel"
  | fuel + 1 =>
    let lastIndex := s.lastLogIndex
    let s := storeItems fuel s batch
    let s := match s.ldr.queue with
      | q :: _ => if !isLogEntryTyp q.typ then s.applyCommittedL else s
      | [] => s
    if s.lastLogIndex > lastIndex then
      let s := s.beginFinishedRounds
      let s := s.notifyFlr
      if s.ldr.numVoters = 1 ∧ s.ldr.node.voter then onMajorityCommit fuel s else s
    else s

/-- the `for ne != nil` loop of `storeEntry`. -/
def storeItems (fuel : Nat) (s : Node) : List QItem → Node
  | [] => s
  | q :: qs =>
    match fuel with
    | 0 => s.panic "fuel"
    | fuel' + 1 =>
      let s :=
        if s.ldr.transfer.active then s.reply q.task "inProgress:transferLeadership"
        else if !s.ldr.node.voter then
          (if s.configs.latest.has s.nid then s.reply q.task "inProgress:demoteLeader"
           else s.reply q.task "inProgress:removeLeader")
        else
          let q := { q with index := s.lastLogIndex + 1, term := s.term, cfg := q.cfg.map Config.payload }
          let s := (s.withLdr ({ s.ldr with queue := s.ldr.queue ++ [q] }))
          if isLogEntryTyp q.typ then
            let s := s.appendEntry q.toEntry
            if q.typ = etConfig then
              match q.toEntry.config? with
              | some c => changeConfigL fuel' s c
              | none => s.panic "bug.configDecode"
            else s
          else s
      storeItems fuel' s qs

/-- `leader.changeConfig`. -/
def changeConfigL (fuel : Nat) (s : Node) (c : Config) : Node :=
  match fuel with
  | 0 => s.panic "fuel"
  | fuel + 1 =>
    let s := (s.withLdr ({ s.ldr with node := c.get s.nid, numVoters := c.numVoters }))
    let s := s.changeConfigR c
    -- remove repls
    let s := (s.withLdr ({ s.ldr with repls := s.ldr.repls.filter (fun r => c.has r.id) }))
    -- add new repls / refresh node
    let s := c.nodes.foldl (fun s n =>
      if n.id = s.nid then s
      else match s.findRepl? n.id with
        | none => s.addReplication n
        | some r => s.setRepl { r with node := n }) s
    checkConfigActions fuel s 0 s.configs.latest

/-- `leader.doChangeConfig`. -/
def doChangeConfig (fuel : Nat) (s : Node) (task : Nat) (c : Config) : Node :=
  match fuel with
  | 0 => s.panic "fuel"
  | fuel + 1 =>
    storeEntry fuel s [{ index := c.index, term := c.term, typ := etConfig, cfg := some c, task := task }]

/-- `leader.checkConfigActions`. -/
def checkConfigActions (fuel : Nat) (s : Node) (task : Nat) (config : Config) : Node :=
  match fuel with
  | 0 => s.panic "fuel"
  | fuel + 1 =>
    let n := config.get s.nid
    let r : Node × Config :=
      if s.canChangeConfig ∧ n.action ≠ actNone then
        if n.action = actDemote then
          let c' := config.set { n with voter := false, action := actNone }
          (doChangeConfig fuel s task c', c')
        else if n.action = actRemove ∨ n.action = actForceRemove then
          let c' := config.erase s.nid
          (doChangeConfig fuel s task c', c')
        else (s.panic "unreachable", config)
      else (s, config)
    r.1.replOrder.foldl (fun s id =>
      match s.findRepl? id with
      | some _ => checkConfigAction fuel s task r.2 id
      | none => s) r.1.popOrder

/-- `leader.checkConfigAction`. -/
def checkConfigAction (fuel : Nat) (s : Node) (task : Nat) (config : Config) (id : Nat) : Node :=
  match fuel with
  | 0 => s.panic "fuel"
  | fuel + 1 =>
    match s.findRepl? id with
    | none => s
    | some st =>
      let n := config.get id
      let action := n.nextAction
      if action = actNone then s
      else
        let r := roundStep s.lastLogIndex action st
        let s := s.setRepl r.1
        if r.2 then s
        else if !s.canChangeConfig then s
        else match actionConfig s.configs.latest.index config n action r.1 with
          | some c => doChangeConfig fuel s task c
          | none => s

/-- `leader.setCommitIndex`. -/
def setCommitIndexL (fuel : Nat) (s : Node) (i : Nat) : Node :=
  match fuel with
  | 0 => s.panic "fuel"
  | fuel + 1 =>
    let s := s.commitLog i
    let commitReady : Bool := decide (s.commitIndex < s.ldr.startIndex ∧ i ≥ s.ldr.startIndex)
    let r := s.setCommitIndexR i
    let s := r.1
    -- config actions were postponed until the leader is commit-ready
    let s := if commitReady ∧ !r.2 ∧ s.role = .leader then checkConfigActions fuel s 0 s.configs.latest else s
    if r.2 then
      if s.configs.isStable then
        let s := s.ldr.waitStable.foldl (fun s t => s.reply t s!"config:{s.configs.latest.index}") s
        (s.withLdr ({ s.ldr with waitStable := [] }))
      else checkConfigActions fuel s 0 s.configs.latest
    else s

/-- `leader.onMajorityCommit`. -/
def onMajorityCommit (fuel : Nat) (s : Node) : Node :=
  match fuel with
  | 0 => s.panic "fuel"
  | fuel + 1 =>
    let m := s.majorityMatchIndex
    let s := if m.2 then s else s.panic "nil.majorityMatchIndex"
    if m.1 > s.commitIndex ∧ m.1 ≥ s.ldr.startIndex then
      let s := setCommitIndexL fuel s m.1
      let s := s.applyCommittedL
      s.notifyFlr
    else s

end

/-- Recursion budget for the mutually recursive leader handlers. One unit is consumed per nested
call; real nesting depth is bounded (a configuration entry can trigger at most one more), the batch
length adds to it. -/
def fuelFor (batch : Nat) : Nat := 64 + 4 * batch

/-- `leader.checkQuorum(wait)` with `quorumWait = 0` (never set from Options). -/
def checkQuorum (s : Node) : Node :=
  let vs := s.configs.latest.nodes.filter (·.voter)
  let reachable := vs.filter (fun n => n.id == s.nid ||
      match s.findRepl? n.id with
      | some r => !r.noContact
      | none => false)
  let s := if vs.any (fun n => n.id != s.nid && (s.findRepl? n.id).isNone) then s.panic "nil.checkQuorum" else s
  if reachable.length ≥ vs.length / 2 + 1 then s
  else (s.setRole .follower).setLeader 0

/-! ## transfer.go -/

/-- `transfer.reply`. -/
def transferReply (s : Node) (result : String) : Node :=
  let s := s.reply s.ldr.transfer.task result
  (s.withLdr ({ s.ldr with transfer := {} }))

/-- Candidates for `tryTransfer` in iteration order. -/
def transferReady (s : Node) (id : Nat) : Bool :=
  match s.findRepl? id with
  | some r => !r.noContact && r.matchIndex == s.lastLogIndex
  | none => false

/-- `leader.tryTransfer`; returns the chosen target (0 = none) in `msgTarget` via reply-free ghost:
the chosen target is reported as a pseudo-reply on task 0 being dropped, so we expose it by state:
`respPending` and the field `target` are what later handlers read. -/
def tryTransferTarget (s : Node) : Nat × Bool :=
  -- (target, panicNilRepl)
  let t := s.ldr.transfer.target
  if t ≠ 0 then
    if s.configs.latest.isVoter t then
      match s.findRepl? t with
      | some r => (if !r.noContact ∧ r.matchIndex = s.lastLogIndex then t else 0, false)
      | none => (0, true)
    else (0, false)
  else
    let cands := s.replOrder.filter (fun id => id != s.nid && s.configs.latest.isVoter id)
    ((cands.find? s.transferReady).getD 0, false)

def tryTransfer (s : Node) : Node :=
  let r := s.tryTransferTarget
  let s := if s.ldr.transfer.target = 0 then s.popOrder else s
  let s := if r.2 then s.panic "nil.tryTransfer" else s
  if r.1 ≠ 0 then (s.withLdr ({ s.ldr with transfer := { s.ldr.transfer with respPending := true } }))
  else s

/-- `leader.validateTransfer`: "" = valid. -/
def validateTransfer (s : Node) (target : Nat) : String :=
  if s.ldr.transfer.active then "inProgress:transferLeadership"
  else if s.configs.latest.numVoters = 1 then "plain:transferNoVoter"
  else if target ≠ 0 then
    if target = s.nid then "plain:transferSelf"
    else match s.configs.latest.find? target with
      | some n => if !n.voter then "plain:transferTargetNonvoter" else ""
      | none => "plain:transferInvalidTarget"
  else ""

/-- `leader.onTransfer`. -/
def onTransfer (s : Node) (task target : Nat) : Node :=
  let err := s.validateTransfer target
  if err ≠ "" then s.reply task err
  else
    let s := (s.withLdr ({ s.ldr with transfer :=
      { s.ldr.transfer with term := s.term, task := task, target := target, active := true } }))
    s.tryTransfer

/-- `leader.replyTransfer`. -/
def replyTransfer (s : Node) (result : String) : Node :=
  let s := s.transferReply result
  checkConfigActions (fuelFor 0) s 0 s.configs.latest

/-- `leader.onTimeoutNowResult`. `err`: transport error; `result`: rpcResult. -/
def onTimeoutNowResult (s : Node) (src : Nat) (err : Bool) (result : Nat) : Node :=
  let s := (s.withLdr ({ s.ldr with transfer := { s.ldr.transfer with respPending := false } }))
  if err then
    let s := match s.findRepl? src with
      | some r => if !r.noContact then s.setRepl { r with noContact := true } else s
      | none => s.panic "nil.onTimeoutNowResult"
    if s.ldr.transfer.target = 0 then s.tryTransfer else s
  else if result ≠ rSuccess then
    if s.ldr.transfer.target = 0 then s.replyTransfer "error"
    else s.tryTransfer
  else (s.withLdr ({ s.ldr with transfer := { s.ldr.transfer with newTermTimer := true } }))

/-! ## leader.init / release -/

/-- `leader.init`. -/
def leaderInit (s : Node) : Node :=
  let s := s.assert (s.leader == s.nid) "assert.leaderInit"
  let s := (s.withLdr ({ node := s.configs.latest.get s.nid, numVoters := s.configs.latest.numVoters,
                              startIndex := s.lastLogIndex + 1, removeLTE := s.log.prev,
                              queue := [], repls := [], transfer := {}, waitStable := [] }))
  let s := s.configs.latest.nodes.foldl (fun s n => if n.id = s.nid then s else s.addReplication n) s
  let s := checkConfigActions (fuelFor 0) s 0 s.configs.latest
  storeEntry (fuelFor 1) s [{ typ := etNop }]

/-- the result `leader.release` gives to a transfer in progress -/
def releaseResult (s : Node) : String :=
  if s.term > s.ldr.transfer.term then "ok"
  else if s.isClosed then "plain:serverClosed" else "plain:quorumUnreachable"

/-- `leader.release` after the transfer was answered: stop replications, answer pending entries and
waitForStableConfig tasks. -/
def leaderReleaseRest (s : Node) : Node :=
  let s := if s.leader = s.nid then s.setLeader 0 else s
  let err := if s.isClosed then "plain:serverClosed" else s.notLeader true
  let s := s.ldr.queue.foldl (fun s q => s.reply q.task err) s
  let s := s.ldr.waitStable.foldl (fun s t => s.reply t err) s
  (s.withLdr ({ node := s.ldr.node, numVoters := s.ldr.numVoters, startIndex := s.ldr.startIndex,
                    removeLTE := s.ldr.removeLTE }))

/-- `leader.release`. -/
def leaderRelease (s : Node) : Node :=
  (if s.ldr.transfer.active then s.transferReply s.releaseResult else s).leaderReleaseRest

/-! ## candidate.go -/

/-- `candidate.startElection`, including the self-vote that `stateLoop` reads from `respCh` next. -/
def startElection (s : Node) : Node :=
  let s := s.assert (s.configs.latest.isVoter s.nid) "assert.startElection"
  let s := (s.withVotesNeeded (s.configs.latest.quorum))
  let s := s.setVotedFor (s.term + 1) s.nid
  -- self vote (onVoteResult with our own success response)
  let s := (s.withVotesNeeded (s.votesNeeded - 1))
  if s.votesNeeded = 0 then (s.setRole .leader).setLeader s.nid else s

/-- `candidate.onVoteResult`. -/
def onVoteResult (s : Node) (err : Bool) (term result : Nat) : Node :=
  if err then s
  else if term > s.term then (s.setRole .follower).setTerm term
  else if result = rSuccess then
    let s := (s.withVotesNeeded (s.votesNeeded - 1))
    if s.votesNeeded = 0 then (s.setRole .leader).setLeader s.nid else s
  else s

/-! ## follower.go -/

def canStartElection (s : Node) : Bool :=
  s.configs.isBootstrapped && s.configs.latest.isVoter s.nid

/-- `follower.onTimeout`. -/
def followerTimeout (s : Node) : Node :=
  let s := s.setLeader 0
  if s.canStartElection then s.setRole .candidate else s

/-! ## state transitions of `stateLoop` -/

def releaseRole (s : Node) (r : Role) : Node :=
  match r with
  | .follower => s
  | .candidate => (s.withCandTransfer (false))
  | .leader => s.leaderRelease

def initRole (s : Node) : Node :=
  match s.role with
  | .follower => s
  | .candidate => s.startElection
  | .leader => s.leaderInit

/-- After a handler: while the role differs from the one whose `init` ran, release and re-init. -/
def settle (fuel : Nat) (s : Node) (cur : Role) : Node :=
  match fuel with
  | 0 => s
  | fuel + 1 =>
    if s.role = cur then s
    else
      let s := s.releaseRole cur
      let cur' := s.role
      let s := s.initRole
      settle fuel s cur'

/-! ## RPC handlers (rpc.go) -/

structure VoteReq where
  term : Nat := 0
  src : Nat := 0
  lastLogIndex : Nat := 0
  lastLogTerm : Nat := 0
  transfer : Bool := false
  deriving DecidableEq, Repr, Inhabited

/-- `Raft.onVoteRequest`: the result is left in `result`; the deferred `setVotedFor(term, votedFor)` is applied. -/
def onVoteRequest (s : Node) (q : VoteReq) : Node :=
  if !q.transfer ∧ s.leader ≠ 0 ∧ q.src ≠ s.leader then s.ret rLeaderKnown
  else if q.term < s.term then s.ret rStaleTerm
  else
    let votedFor := if q.term > s.term then 0 else s.votedFor
    let term := if q.term > s.term then q.term else s.term
    let s := if q.term > s.term then s.setRole .follower else s
    if votedFor ≠ 0 then
      (s.setVotedFor term votedFor).ret (if votedFor = q.src then rSuccess else rAlreadyVoted)
    else if s.lastLogTerm > q.lastLogTerm ∨ (s.lastLogTerm = q.lastLogTerm ∧ s.lastLogIndex > q.lastLogIndex) then
      (s.setVotedFor term votedFor).ret rLogNotUptodate
    else (s.setVotedFor term q.src).ret rSuccess

structure AppendReq where
  term : Nat := 0
  src : Nat := 0
  prevLogIndex : Nat := 0
  prevLogTerm : Nat := 0
  ldrCommitIndex : Nat := 0
  entries : List Entry := []
  deriving DecidableEq, Repr, Inhabited

/-- `Raft.canCommit`. -/
def canCommit (s : Node) (q : AppendReq) (index term : Nat) : Bool :=
  q.ldrCommitIndex ≥ index && term == q.term && index > s.commitIndex

/-- Loop state of the entry-consuming loop in `onAppendEntriesRequest`. -/
structure AppLoop where
  s : Node
  index : Nat
  term : Nat
  syncLog : Bool := false
  err : Bool := false        -- config decode failed: unexpectedErr

/-- "new entry conflicts with our entry: delete it and all that follow it" (and revert the
configuration if it was at or above that index); nothing to do for an index beyond the log. -/
def resolveConflict (s : Node) (ne : Entry) (prevTerm : Nat) : Node :=
  if ne.index ≤ s.lastLogIndex then
    match s.entryTerm? ne.index with
    | none => s.panic "bug.mustGetEntry"
    | some _ =>
      let s := s.removeGTE ne.index prevTerm
      if ne.index ≤ s.configs.latest.index then s.revertConfig else s
  else s

def appendLoop (st : AppLoop) : List Entry → AppLoop
  | [] => st
  | ne :: rest =>
    if st.err then st else
    let prevTerm := st.term
    let st := { st with index := ne.index, term := ne.term }
    let s := st.s
    if ne.index ≤ s.snapIndex then appendLoop st rest
    else
      -- entry already present with the same term → continue
      let present : Bool := ne.index ≤ s.lastLogIndex && s.entryTerm? ne.index == some ne.term
      if present then appendLoop st rest
      else
        let s := (s.resolveConflict ne prevTerm).appendEntry ne
        let st := { st with s := s, syncLog := true }
        if ne.typ = etConfig then
          match ne.config? with
          | some c => appendLoop { st with s := s.changeConfigR c } rest
          | none => { st with err := true }
        else appendLoop st rest

/-- The consistency check of `onAppendEntriesRequest`; `result = 0` means the request is valid. -/
def appendCheck (s : Node) (q : AppendReq) : Node :=
  if q.prevLogIndex > s.snapIndex then
    if q.prevLogIndex > s.lastLogIndex then s.ret rPrevEntryNotFound
    else
      let s := if q.prevLogIndex = s.lastLogIndex then s
               else match s.entryTerm? q.prevLogIndex with
                 | some _ => s
                 | none => s.panic "bug.mustGetEntry"
      let prevLogTerm := if q.prevLogIndex = s.lastLogIndex then s.lastLogTerm
                         else (s.entryTerm? q.prevLogIndex).getD 0
      if q.prevLogTerm ≠ prevLogTerm then s.ret rPrevTermMismatch
      else if s.canCommit q q.prevLogIndex q.prevLogTerm then
        ((s.setCommitIndexR q.prevLogIndex).1.applyCommitted).ret 0
      else s.ret 0
  else s.ret 0

/-- `Raft.onAppendEntriesRequest`. -/
def onAppendEntries (s : Node) (q : AppendReq) : Node :=
  if q.term < s.term then s.ret rStaleTerm
  else
    let s := if q.term > s.term then (s.setTerm q.term).setRole .follower else s
    let s := (s.setRole .follower).setLeader q.src
    let s := s.appendCheck q
    if s.result ≠ 0 then s
    else
      let st := appendLoop { s := s, index := q.prevLogIndex, term := q.prevLogTerm } q.entries
      let s := st.s
      -- deferred func (registered iff numEntries > 0)
      let s :=
        if !q.entries.isEmpty ∧ st.syncLog then
          let s := s.commitLog s.lastLogIndex
          if s.canCommit q st.index st.term then (s.setCommitIndexR st.index).1.applyCommitted else s
        else s
      s.ret (if st.err then rUnexpectedErr else rSuccess)

structure InstallReq where
  term : Nat := 0
  src : Nat := 0
  lastIndex : Nat := 0
  lastTerm : Nat := 0
  lastConfig : Config := {}
  data : List String := []
  deriving DecidableEq, Repr, Inhabited

def insertSnap (f : SnapFile) : List SnapFile → List SnapFile
  | [] => [f]
  | g :: gs =>
    if f.index > g.index then f :: g :: gs
    else if f.index = g.index then f :: gs
    else g :: insertSnap f gs

/-- `snapshotSink.done` (success path): publish meta, update `snaps.index/term`, apply retention. -/
def publishSnapshot (s : Node) (f : SnapFile) : Node :=
  let s := ({ s with snapsDisk := insertSnap f s.snapsDisk }).point "snap.publish"
  let s := { s with snapIndex := f.index, snapTerm := f.term }
  ({ s with snapsDisk := s.snapsDisk.take s.retain }).point "snap.retain"

/-- `fsmRestoreReq` processed by the FSM goroutine: `snaps.open()` reads the meta of `snaps.index`. -/
def fsmRestore (s : Node) : Node :=
  if s.snapIndex = 0 then s.panic "fsm.restoreNoSnapshot"
  else match s.snapsDisk.find? (·.index == s.snapIndex) with
    | some f => (s.withFsm ({ index := f.index, term := f.term, applied := f.data, config := f.config }))
    | none => s.panic "fsm.restoreOpen"

/-- `Raft.onInstallSnapRequest`. -/
def onInstallSnap (s : Node) (q : InstallReq) : Node :=
  if q.term < s.term then s.ret rStaleTerm
  else
    let s := if q.term > s.term then (s.setTerm q.term).setRole .follower else s
    let s := (s.setRole .follower).setLeader q.src
    -- stale or duplicate: everything the snapshot covers is already committed here
    if q.lastIndex ≤ s.commitIndex then s.ret rSuccess else
    -- we already hold the snapshot's last entry (same index and term): nothing to install
    if s.log.contains q.lastIndex && (s.entryTerm? q.lastIndex == some q.lastTerm) then s.ret rSuccess else
    let s := s.publishSnapshot { index := q.lastIndex, term := q.lastTerm, config := q.lastConfig, data := q.data }
    let s := s.clearLog
    let s := s.fsmRestore
    let s := s.withCommitIndex s.snapIndex
    let s := s.changeConfigR q.lastConfig
    s.commitConfig.ret rSuccess

/-- `Raft.onTimeoutNowRequest`. -/
def onTimeoutNow (s : Node) : Node :=
  if !s.configs.latest.isVoter s.nid then s.ret rNonVoter
  else (((s.setRole .candidate).setLeader 0).withCandTransfer true).ret rSuccess

/-! ## tasks (task.go, fsm.go) -/

/-- `Raft.onTakeSnapshot`. -/
def onTakeSnapshot (s : Node) (task threshold : Nat) : Node :=
  if s.snapPending.isSome ∨ s.snapResult.isSome then s.reply task "inProgress:takeSnapshot"
  else (s.withSnapPending (some { task := task, minIndex := s.snapIndex + threshold, config := s.configs.committed }))

/-- The snapshot goroutine (`doTakeSnapshot`) running to completion. -/
def snapRun (s : Node) : Node :=
  match s.snapPending with
  | none => s
  | some rq =>
    let s := (s.withSnapPending (none))
    if s.fsm.index = s.snapIndex then (s.withSnapResult (some { task := rq.task, err := "plain:noUpdates" }))
    else if s.fsm.index < rq.minIndex then (s.withSnapResult (some { task := rq.task, err := "plain:snapshotThreshold" }))
    else
      let cfg := if s.fsm.config.index > 0 then s.fsm.config else rq.config
      let s := s.publishSnapshot { index := s.fsm.index, term := s.fsm.term, config := cfg, data := s.fsm.applied }
      (s.withSnapResult (some { task := rq.task, index := s.snapIndex }))

/-- `Raft.onSnapshotTaken`. -/
def onSnapshotTaken (s : Node) : Node :=
  match s.snapResult with
  | none => s
  | some rs =>
    let s := (s.withSnapResult (none))
    if rs.err ≠ "" then s.reply rs.task rs.err
    else
      let s :=
        if s.log.contains rs.index then
          let repls := if s.role = .leader then s.ldr.repls else []
          let nowC := repls.foldl (fun m r => if r.matchIndex < m then r.matchIndex else m) rs.index
          let canC := repls.foldl (fun m r => if !r.noContact ∧ r.matchIndex < m then r.matchIndex else m) rs.index
          let nowC := s.log.canLTE nowC
          let canC := s.log.canLTE canC
          let s := if nowC > s.log.prev then s.compactLog nowC else s
          if canC > nowC then
            ((s.withLdr ({ s.ldr with removeLTE := canC }))).notifyFlr
          else if s.role = .leader ∧ s.ldr.removeLTE < s.log.prev then
            ((s.withLdr ({ s.ldr with removeLTE := s.log.prev }))).notifyFlr
          else s
        else s
      s.reply rs.task s!"u64:{rs.index}"

/-- Address syntax accepted by `Node.validate` for the address shapes the harness generates
("host:port" with decimal port > 0). -/
def addrValid (a : String) : Bool :=
  match a.splitOn ":" with
  | [h, p] => !h.isEmpty && (match p.toNat? with | some n => n > 0 | none => false) || (h.isEmpty && (match p.toNat? with | some n => n > 0 | none => false))
  | _ => false

/-- `Node.validate`. -/
def nodeValid (n : CNode) : Bool :=
  n.id ≠ 0 && addrValid n.addr && decide (n.action ≤ actForceRemove) &&
    !(n.action = actPromote ∧ n.voter) && !(n.action = actDemote ∧ !n.voter)

/-- `Config.validate`. -/
def configValid (c : Config) : Bool :=
  c.nodes.all nodeValid && (c.nodes.map (·.addr)).eraseDups.length == c.nodes.length && c.numVoters ≠ 0

/-- `leader.onChangeConfig`. -/
def onChangeConfig (s : Node) (task : Nat) (newConf : Config) : Node :=
  if !s.configs.isCommitted then s.reply task "inProgress:configChange"
  else if s.commitIndex < s.ldr.startIndex then s.reply task "temp:notCommitReady"
  else if newConf.index ≠ s.configs.latest.index then s.reply task "plain:staleConfig"
  else if !configValid newConf then s.reply task "error"
  else if s.configs.latest.nodes.any (fun n => match newConf.find? n.id with
      | none => true
      | some nn => n.voter != nn.voter) then s.reply task "error"
  else if newConf.nodes.any (fun n => !s.configs.latest.has n.id && n.voter) then s.reply task "error"
  else if !newConf.nodes.any (fun n => n.voter && n.action == actNone) then s.reply task "error"
  else
    let lastIndex := s.lastLogIndex
    let s := checkConfigActions (fuelFor 0) s task newConf
    if s.lastLogIndex = lastIndex then doChangeConfig (fuelFor 1) s task newConf else s

/-- `Raft.bootstrap`. -/
def bootstrap (s : Node) (task : Nat) (newConf : Config) : Node :=
  if s.configs.isBootstrapped then s.reply task (s.notLeader false)
  else if !configValid newConf then s.reply task "error"
  else match newConf.find? s.nid with
    | none => s.reply task "error"
    | some self =>
      if !self.voter then s.reply task "error"
      else if !newConf.isStable then s.reply task "error"
      else
        let c := { newConf with index := 1, term := 1 }
        -- storage.bootstrap: appendEntry; commitLog(1); setTerm(1)
        let s := s.appendEntry c.toEntry
        let s := s.commitLog 1
        let s := s.setTerm 1
        let s := s.withLast c.index c.term
        let s := s.changeConfigR c
        let s := s.reply task "ok"
        s.setRole .candidate

/-! ## `leader.checkReplUpdates` -/

inductive ReplUpd where
  | matchIndex (v : Nat)
  | removeLTE (v : Nat)
  | noContact (unreachable : Bool)
  | newTerm (v : Nat)
  deriving DecidableEq, Repr, Inhabited

structure ReplUpdate where
  id : Nat := 0
  removed : Bool := false     -- the status object belongs to a replication that was removed
  upd : ReplUpd := .matchIndex 0
  deriving DecidableEq, Repr, Inhabited

structure UpdFlags where
  matchU : Bool := false
  noContactU : Bool := false
  removeLTEU : Bool := false
  stop : Bool := false

def replUpdLoop (s : Node) (f : UpdFlags) : List ReplUpdate → Node × UpdFlags
  | [] => (s, f)
  | u :: us =>
    if u.removed then replUpdLoop s f us
    else match s.findRepl? u.id with
      | none => replUpdLoop s f us     -- the replication was removed earlier in this batch: `status.removed`
      | some st =>
        match u.upd with
        | .matchIndex v =>
          let st := { st with matchIndex := v }
          let s := s.setRepl st
          let s := if !st.node.voter ∧ st.node.action ≠ actNone
                   then checkConfigAction (fuelFor 0) s 0 s.configs.latest st.id else s
          replUpdLoop s { f with matchU := true } us
        | .removeLTE v => replUpdLoop (s.setRepl { st with removeLTE := v }) { f with removeLTEU := true } us
        | .noContact b => replUpdLoop (s.setRepl { st with noContact := b }) { f with noContactU := true } us
        | .newTerm v => (((s.setRole .follower).setLeader 0).setTerm v, { f with stop := true })

/-- `leader.checkLogCompact`. -/
def checkLogCompact (s : Node) : Node :=
  if s.ldr.repls.any (fun r => r.removeLTE < s.ldr.removeLTE) then s else s.compactLog s.ldr.removeLTE

def checkReplUpdates (s : Node) (us : List ReplUpdate) : Node :=
  let r := replUpdLoop s {} us
  let s := r.1
  let f := r.2
  if f.stop then s
  else
    let s := if f.matchU then onMajorityCommit (fuelFor 0) s else s
    let s := if f.noContactU then s.checkQuorum else s
    let s := if f.removeLTEU ∧ s.ldr.removeLTE > s.log.prev then s.checkLogCompact else s
    if (f.matchU ∨ f.noContactU) ∧ s.ldr.transfer.active ∧ !s.ldr.transfer.targetChosen then s.tryTransfer else s

/-! ## restart (`openStorage` + `New` + the restore step of `Serve`) -/

/-- Scan for the last two configuration entries above the snapshot (`openStorage`, "load configs").
Returns (latest?, committed?, failed) — failed: `getEntry` hit ErrNotFound. -/
def scanConfigs (log : NLog) (snapIndex : Nat) : Nat → Nat → Option Config → Option Config × Option Config × Bool
  | 0, _, latest => (latest, none, false)
  | fuel + 1, i, latest =>
    if i ≤ snapIndex then (latest, none, false)
    else match log.get? i with
      | none => (latest, none, true)
      | some e =>
        match e.config? with
        | some c =>
          (match latest with
           | none => scanConfigs log snapIndex fuel (i - 1) (some c)
           | some l => (some l, some c, false))
        | none =>
          if e.typ = etConfig then (latest, none, true)     -- decode error
          else scanConfigs log snapIndex fuel (i - 1) latest

/-- `openStorage`: is the log on disk a stale branch with respect to the newest snapshot — it ends before the
snapshot, or it still holds an entry at the snapshot index whose term is not the snapshot's (the process died in
`onInstallSnapRequest` after storing the snapshot and before resetting the log)? -/
def staleLog (d : Durable) : Bool :=
  let snap : SnapFile := (d.snaps.head?).getD {}
  decide (d.log.last < snap.index) ||
    (decide (d.log.prev < snap.index) && ((d.log.get? snap.index).map (·.term) != some snap.term))

/-- `openStorage` + `New`: the node as constructed from what is on disk (before `Serve`). -/
def restartNode (d : Durable) (retain : Nat) (shutdownOnRemove : Bool) : Node :=
  let snap : SnapFile := (d.snaps.head?).getD {}
  -- a stale log is reset (crash between storing a snapshot and resetting the log)
  let log := if staleLog d then NLog.reset snap.index else d.log
  let lastIdx := if log.count > 0 then log.last else snap.index
  let lastTerm := if log.count > 0 then ((log.entries.getLast?).map (·.term)).getD 0 else snap.term
  let sc := scanConfigs log snap.index (lastIdx + 1) lastIdx none
  let latest := (sc.1).getD snap.config
  let committed := match sc.1 with
    | none => snap.config
    | some _ => (sc.2.1).getD snap.config
  { cid := d.cid, nid := d.nid, retain := retain, shutdownOnRemove := shutdownOnRemove,
    term := d.term, votedFor := d.vote, durTerm := d.term, durVote := d.vote,
    log := { log with flushed := log.last }, lastLogIndex := lastIdx, lastLogTerm := lastTerm,
    snapIndex := snap.index, snapTerm := snap.term, snapsDisk := d.snaps,
    configs := { committed := committed, latest := latest } }

/-- Does `openStorage` fail while loading configurations (`getEntry` → ErrNotFound / decode error)? -/
def restartFails (d : Durable) : Bool :=
  let snap : SnapFile := (d.snaps.head?).getD {}
  let log := if staleLog d then NLog.reset snap.index else d.log
  let lastIdx := if log.count > 0 then log.last else snap.index
  (scanConfigs log snap.index (lastIdx + 1) lastIdx none).2.2

/-- Restart from what is on disk. `none`: `openStorage`/`New` fails. -/
def restart (d : Durable) (retain : Nat) (shutdownOnRemove : Bool) : Option Node :=
  if d.cid = 0 ∨ d.nid = 0 then none
  else if restartFails d then none
  else
    let s := restartNode d retain shutdownOnRemove
    -- Serve: restore fsm from last snapshot, if present
    some (if s.snapIndex > 0 then s.fsmRestore.withCommitIndex s.snapIndex else s)

/-! ## shutdown -/

/-- `Shutdown`: doClose(ErrServerClosed); stateLoop returns; deferred `states[state].release(); r.release()`. -/
def shutdown (s : Node) : Node :=
  let s := s.doClose "serverClosed"
  let s := s.releaseRole s.role
  -- Raft.release: wait for snapshot to complete
  let s := if s.snapPending.isSome then s.snapRun else s
  if s.snapResult.isSome then s.onSnapshotTaken else s

end Node
end Raft
