/-
M1 `Codec` — byte-level executable model of every encoder/decoder of the Go Raft
library (binary.go, messages.go, config.go, task.go, snapshots.go, client.go,
server.handleTask, rpc.go stream consumption, value.go file naming).

Core Lean only.  A decoder is `List UInt8 → Except DecErr (α × List UInt8)` and returns
the unread rest, which is how framing is stated.  Go strings are arbitrary byte strings,
so they are modelled as `List UInt8`.

Modelling decisions (each one is compared with the real code by `codecdiff`):
* fixed width integers are little-endian (`binary.LittleEndian`);
* `io.ReadFull` on `n` bytes: `n = 0` always succeeds, no byte available ⇒ `io.EOF`,
  some but fewer than `n` ⇒ `io.ErrUnexpectedEOF`; `io.CopyN` ⇒ always `io.EOF` when short;
* a length prefix is `uint32(len(b))`, i.e. the length modulo 2^32 (the guard
  `len < 2^32` of the round-trip theorems is exactly where this truncation is harmless);
* `int64` fields (`size`, `timeout`) are carried as their `uint64` wire value (Go converts
  both ways bijectively);
* a Go map (`Config.Nodes`, `Info.Followers`) is its list of values in iteration order on
  the encode side and the id-sorted, last-wins list on the decode side (`canonNodes`);
* `Replication.Unreachable : *time.Time` is its `UnixNano()` as `uint64`.
-/

namespace RaftVerif.Codec

abbrev Bytes := List UInt8

/-- Error kinds a decoder can produce (the Go `error` values, as a small enum). -/
inductive DecErr
  | eof              -- io.EOF
  | unexpectedEof    -- io.ErrUnexpectedEOF
  | notConfig        -- "raft: expected entryConfig in Config.decode"
  | invalidTaskType  -- "invalidTaskType" (decodeTaskResp) / not a task byte
  | invalidRpcType   -- "raft: server.handleRpc got rpcType %d"
  deriving DecidableEq, Repr

def DecErr.isEof : DecErr → Bool
  | .eof => true
  | .unexpectedEof => true
  | _ => false

def DecErr.name : DecErr → String
  | .eof => "eof"
  | .unexpectedEof => "unexpectedEof"
  | .notConfig => "notConfig"
  | .invalidTaskType => "invalidTaskType"
  | .invalidRpcType => "invalidRpcType"

/-- A streaming decoder: consumes a prefix of the input, returns the value and the rest. -/
def Decoder (α : Type) : Type := Bytes → Except DecErr (α × Bytes)

instance : Monad Decoder where
  pure a := fun s => .ok (a, s)
  bind d f := fun s =>
    match d s with
    | .error e => .error e
    | .ok r => f r.1 r.2

def Decoder.fail {α : Type} (e : DecErr) : Decoder α := fun _ => .error e

/-- Lift the result of a pure (non-stream) computation; consumes nothing. -/
def Decoder.lift {α : Type} (x : Except DecErr α) : Decoder α := fun s =>
  match x with
  | .error e => .error e
  | .ok a => .ok (a, s)

/-! ## Primitives (binary.go) -/

/-- `k` little-endian bytes of `n` (i.e. of `n mod 256^k`). -/
def bytesLE : Nat → Nat → Bytes
  | 0, _ => []
  | k + 1, n => UInt8.ofNat (n % 256) :: bytesLE k (n / 256)

/-- Little-endian value of a byte string. -/
def natLE : Bytes → Nat
  | [] => 0
  | b :: bs => b.toNat + 256 * natLE bs

/-- `io.ReadFull(r, make([]byte, n))`. -/
def readN (n : Nat) : Decoder Bytes := fun s =>
  if n ≤ s.length then .ok (s.take n, s.drop n)
  else if s.isEmpty then .error .eof
  else .error .unexpectedEof

/-- `io.CopyN(dst, r, n)`: a short read is always reported as `io.EOF`. -/
def copyN (n : Nat) : Decoder Bytes := fun s =>
  if n ≤ s.length then .ok (s.take n, s.drop n)
  else .error .eof

def encU8 (v : UInt8) : Bytes := [v]
def decU8 : Decoder UInt8 := do
  let b ← readN 1
  pure (b.headD 0)

/-- `writeUint32(w, uint32(n))` for a length / count `n` (truncating like Go). -/
def encU32 (n : Nat) : Bytes := bytesLE 4 n
def decU32 : Decoder Nat := do
  let b ← readN 4
  pure (natLE b)

def encU64 (v : UInt64) : Bytes := bytesLE 8 v.toNat
def decU64 : Decoder UInt64 := do
  let b ← readN 8
  pure (UInt64.ofNat (natLE b))

def encBool (b : Bool) : Bytes := [if b then 1 else 0]
/-- `readBool`: `b > 0`. -/
def decBool : Decoder Bool := do
  let b ← decU8
  pure (b != 0)

/-- `writeBytes` / `writeString`. -/
def encBytes (b : Bytes) : Bytes := encU32 b.length ++ b
/-- `readBytes` / `readString`. -/
def decBytes : Decoder Bytes := do
  let n ← decU32
  readN n

/-- Read `n` items one after the other (the Go `for ; size > 0; size--` loops). -/
def decList {α : Type} (d : Decoder α) : Nat → Decoder (List α)
  | 0 => pure []
  | n + 1 => do
    let a ← d
    let as ← decList d n
    pure (a :: as)

def encList {α : Type} (enc : α → Bytes) : List α → Bytes
  | [] => []
  | a :: as => enc a ++ encList enc as

/-! ## entry (messages.go) -/

structure Entry where
  index : UInt64
  term : UInt64
  typ : UInt8
  data : Bytes
  deriving DecidableEq, Repr

def entryConfigTyp : UInt8 := 6

def encEntry (e : Entry) : Bytes :=
  encU64 e.index ++ encU64 e.term ++ encU8 e.typ ++ encBytes e.data

def decEntry : Decoder Entry := do
  let index ← decU64
  let term ← decU64
  let typ ← decU8
  let data ← decBytes
  pure ⟨index, term, typ, data⟩

/-- `isEntryBuffered` on the currently buffered bytes. -/
def isEntryBuffered (buf : Bytes) : Bool :=
  decide (21 ≤ buf.length) && decide (21 + natLE ((buf.drop 17).take 4) ≤ buf.length)

/-! ## Node, Config (config.go) -/

structure Node where
  id : UInt64
  addr : Bytes
  voter : Bool
  data : Bytes
  action : UInt8
  deriving DecidableEq, Repr

def encNode (n : Node) : Bytes :=
  encU64 n.id ++ encBytes n.addr ++ encBool n.voter ++ encBytes n.data ++ encU8 n.action

def decNode : Decoder Node := do
  let id ← decU64
  let addr ← decBytes
  let voter ← decBool
  let data ← decBytes
  let action ← decU8
  pure ⟨id, addr, voter, data, action⟩

/-- `m[key n] = n` on a key-sorted association list (a Go map keyed by id). -/
def insertKeyed {α : Type} (key : α → UInt64) (n : α) : List α → List α
  | [] => [n]
  | m :: ms =>
    if key n < key m then n :: m :: ms
    else if key n = key m then n :: ms
    else m :: insertKeyed key n ms

/-- The map built by inserting the values in the given order (last wins), key-sorted. -/
def canonKeyed {α : Type} (key : α → UInt64) (xs : List α) : List α :=
  xs.foldl (fun acc n => insertKeyed key n acc) []

/-- `c.Nodes[n.ID] = n` for every decoded node, as the id-sorted list. -/
def canonNodes (ns : List Node) : List Node := canonKeyed Node.id ns

/-- `Config`: `nodes` is the list of map values; on the encode side in iteration order. -/
structure Config where
  nodes : List Node
  index : UInt64
  term : UInt64
  deriving DecidableEq, Repr

def configData (c : Config) : Bytes :=
  encU32 c.nodes.length ++ encList encNode c.nodes

/-- `Config.encode() *entry`. -/
def configEntry (c : Config) : Entry :=
  ⟨c.index, c.term, entryConfigTyp, configData c⟩

def decConfigData : Decoder (List Node) := do
  let n ← decU32
  decList decNode n

/-- `Config.decode(e *entry)`; bytes of `e.data` after the last node are ignored. -/
def configOfEntry (e : Entry) : Except DecErr Config :=
  if e.typ ≠ entryConfigTyp then .error .notConfig
  else
    match decConfigData e.data with
    | .error err => .error err
    | .ok r => .ok ⟨canonNodes r.1, e.index, e.term⟩

/-- A config on the wire: always embedded as an entry. -/
def encConfig (c : Config) : Bytes := encEntry (configEntry c)

def decConfig : Decoder Config := do
  let e ← decEntry
  Decoder.lift (configOfEntry e)

def canonConfig (c : Config) : Config := { c with nodes := canonNodes c.nodes }

/-! ## requests (messages.go) -/

structure Req where
  term : UInt64
  src : UInt64
  deriving DecidableEq, Repr

def encReq (r : Req) : Bytes := encU64 r.term ++ encU64 r.src
def decReq : Decoder Req := do
  let term ← decU64
  let src ← decU64
  pure ⟨term, src⟩

structure IdentityReq where
  req : Req
  cid : UInt64
  nid : UInt64
  deriving DecidableEq, Repr

def encIdentityReq (r : IdentityReq) : Bytes := encReq r.req ++ encU64 r.cid ++ encU64 r.nid
def decIdentityReq : Decoder IdentityReq := do
  let req ← decReq
  let cid ← decU64
  let nid ← decU64
  pure ⟨req, cid, nid⟩

structure VoteReq where
  req : Req
  lastLogIndex : UInt64
  lastLogTerm : UInt64
  transfer : Bool
  deriving DecidableEq, Repr

def encVoteReq (r : VoteReq) : Bytes :=
  encReq r.req ++ encU64 r.lastLogIndex ++ encU64 r.lastLogTerm ++ encBool r.transfer
def decVoteReq : Decoder VoteReq := do
  let req ← decReq
  let lastLogIndex ← decU64
  let lastLogTerm ← decU64
  let transfer ← decBool
  pure ⟨req, lastLogIndex, lastLogTerm, transfer⟩

/-- appendReq header; the `numEntries` entries follow on the stream. -/
structure AppendReq where
  req : Req
  prevLogIndex : UInt64
  prevLogTerm : UInt64
  ldrCommitIndex : UInt64
  numEntries : UInt64
  deriving DecidableEq, Repr

def encAppendReq (r : AppendReq) : Bytes :=
  encReq r.req ++ encU64 r.prevLogIndex ++ encU64 r.prevLogTerm ++ encU64 r.ldrCommitIndex
    ++ encU64 r.numEntries
def decAppendReq : Decoder AppendReq := do
  let req ← decReq
  let prevLogIndex ← decU64
  let prevLogTerm ← decU64
  let ldrCommitIndex ← decU64
  let numEntries ← decU64
  pure ⟨req, prevLogIndex, prevLogTerm, ldrCommitIndex, numEntries⟩

/-- installSnapReq header; `size` (an `int64` carried as `uint64`) raw bytes follow. -/
structure InstallSnapReq where
  req : Req
  lastIndex : UInt64
  lastTerm : UInt64
  lastConfig : Config
  size : UInt64
  deriving DecidableEq, Repr

def encInstallSnapReq (r : InstallSnapReq) : Bytes :=
  encReq r.req ++ encU64 r.lastIndex ++ encU64 r.lastTerm ++ encConfig r.lastConfig
    ++ encU64 r.size
def decInstallSnapReq : Decoder InstallSnapReq := do
  let req ← decReq
  let lastIndex ← decU64
  let lastTerm ← decU64
  let lastConfig ← decConfig
  let size ← decU64
  pure ⟨req, lastIndex, lastTerm, lastConfig, size⟩

def canonInstallSnapReq (r : InstallSnapReq) : InstallSnapReq :=
  { r with lastConfig := canonConfig r.lastConfig }

/-- timeoutNowReq is just the `req` header. -/
abbrev TimeoutNowReq := Req
def encTimeoutNowReq (r : TimeoutNowReq) : Bytes := encReq r
def decTimeoutNowReq : Decoder TimeoutNowReq := decReq

/-! ## responses (messages.go) -/

def unexpectedErr : UInt8 := 11

/-- The `error` carried by a response: `OpError{op, errors.New text}` or any other error
whose `Error()` text is `text`. -/
inductive RespErr
  | plain (text : Bytes)
  | op (op : Bytes) (text : Bytes)
  deriving DecidableEq, Repr

def RespErr.opStr : RespErr → Bytes
  | .plain _ => []
  | .op o _ => o
def RespErr.textStr : RespErr → Bytes
  | .plain t => t
  | .op _ t => t

/-- What `resp.decode` builds from the two strings. -/
def mkRespErr (op text : Bytes) : RespErr :=
  if op = [] then .plain text else .op op text

structure Resp where
  term : UInt64
  result : UInt8
  err : Option RespErr
  deriving DecidableEq, Repr

/-- `resp.encode` dereferences a nil error when `result == unexpectedErr` and `err == nil`. -/
def respEncPanics (r : Resp) : Bool := r.result == unexpectedErr && r.err.isNone

def encRespErr : Option RespErr → Bytes
  | none => []
  | some e => encBytes e.opStr ++ encBytes e.textStr

def encResp (r : Resp) : Bytes :=
  encU64 r.term ++ encU8 r.result ++
    (if r.result = unexpectedErr then encRespErr r.err else [])

def decResp : Decoder Resp := do
  let term ← decU64
  let result ← decU8
  if result = unexpectedErr then do
    let op ← decBytes
    let text ← decBytes
    pure ⟨term, result, some (mkRespErr op text)⟩
  else
    pure ⟨term, result, none⟩

def canonRespErr (e : RespErr) : RespErr := mkRespErr e.opStr e.textStr

def canonResp (r : Resp) : Resp :=
  if r.result = unexpectedErr then { r with err := r.err.map canonRespErr }
  else { r with err := none }

structure AppendResp where
  resp : Resp
  lastLogIndex : UInt64
  deriving DecidableEq, Repr

def encAppendResp (r : AppendResp) : Bytes := encResp r.resp ++ encU64 r.lastLogIndex
def decAppendResp : Decoder AppendResp := do
  let resp ← decResp
  let lastLogIndex ← decU64
  pure ⟨resp, lastLogIndex⟩
def canonAppendResp (r : AppendResp) : AppendResp := { r with resp := canonResp r.resp }

/-! ## snapshotMeta (snapshots.go) -/

structure SnapshotMeta where
  index : UInt64
  term : UInt64
  config : Config
  size : UInt64
  deriving DecidableEq, Repr

def encSnapshotMeta (m : SnapshotMeta) : Bytes :=
  encU64 m.index ++ encU64 m.term ++ encConfig m.config ++ encU64 m.size
def decSnapshotMeta : Decoder SnapshotMeta := do
  let index ← decU64
  let term ← decU64
  let config ← decConfig
  let size ← decU64
  pure ⟨index, term, config, size⟩
def canonSnapshotMeta (m : SnapshotMeta) : SnapshotMeta :=
  { m with config := canonConfig m.config }

/-! ## Replication, Info (task.go) -/

/-- `unreachable` is `Unreachable.UnixNano()` as uint64 (`none` = nil pointer);
`err` is `Err.Error()` (`none` = nil error). -/
structure Replication where
  id : UInt64
  matchIndex : UInt64
  unreachable : Option UInt64
  err : Option Bytes
  errMessage : Bytes
  round : UInt64
  deriving DecidableEq, Repr

def encReplication (r : Replication) : Bytes :=
  encU64 r.id ++ encU64 r.matchIndex ++ encU64 (r.unreachable.getD 0) ++ encBytes r.errMessage
    ++ encU64 r.round

def decReplication : Decoder Replication := do
  let id ← decU64
  let matchIndex ← decU64
  let nano ← decU64
  let msg ← decBytes
  let round ← decU64
  pure ⟨id, matchIndex, if nano = 0 then none else some nano,
        if msg = [] then none else some msg, msg, round⟩

/-- `Err` is carried only as `ErrMessage`; `Unreachable` at exactly the epoch ≡ nil. -/
def canonReplication (r : Replication) : Replication :=
  { r with
    unreachable := if r.unreachable.getD 0 = 0 then none else r.unreachable
    err := if r.errMessage = [] then none else some r.errMessage }

/-- `info.Followers[repl.ID] = repl` for every decoded item, as the id-sorted list. -/
def canonRepls (rs : List Replication) : List Replication := canonKeyed Replication.id rs

structure Info where
  cid : UInt64
  nid : UInt64
  addr : Bytes
  term : UInt64
  state : UInt8
  leader : UInt64
  snapshotIndex : UInt64
  firstLogIndex : UInt64
  lastLogIndex : UInt64
  lastLogTerm : UInt64
  committed : UInt64
  lastApplied : UInt64
  cfgCommitted : Config
  cfgLatest : Config
  followers : List Replication
  deriving DecidableEq, Repr

def encInfo (i : Info) : Bytes :=
  encU64 i.cid ++ encU64 i.nid ++ encBytes i.addr ++ encU64 i.term ++ encU8 i.state
    ++ encU64 i.leader ++ encU64 i.snapshotIndex ++ encU64 i.firstLogIndex
    ++ encU64 i.lastLogIndex ++ encU64 i.lastLogTerm ++ encU64 i.committed
    ++ encU64 i.lastApplied ++ encConfig i.cfgCommitted ++ encConfig i.cfgLatest
    ++ encU32 i.followers.length ++ encList encReplication i.followers

def decInfo : Decoder Info := do
  let cid ← decU64
  let nid ← decU64
  let addr ← decBytes
  let term ← decU64
  let state ← decU8
  let leader ← decU64
  let snapshotIndex ← decU64
  let firstLogIndex ← decU64
  let lastLogIndex ← decU64
  let lastLogTerm ← decU64
  let committed ← decU64
  let lastApplied ← decU64
  let cfgCommitted ← decConfig
  let cfgLatest ← decConfig
  let n ← decU32
  let fl ← decList decReplication n
  pure ⟨cid, nid, addr, term, state, leader, snapshotIndex, firstLogIndex, lastLogIndex,
        lastLogTerm, committed, lastApplied, cfgCommitted, cfgLatest, canonRepls fl⟩

def canonInfo (i : Info) : Info :=
  { i with
    cfgCommitted := canonConfig i.cfgCommitted
    cfgLatest := canonConfig i.cfgLatest
    followers := canonRepls (i.followers.map canonReplication) }

/-! ## task responses (client.go) -/

def taskInfo : UInt8 := 127
def taskChangeConfig : UInt8 := 126
def taskWaitForStableConfig : UInt8 := 125
def taskTakeSnapshot : UInt8 := 124
def taskTransferLdr : UInt8 := 123

def isValidTask (t : UInt8) : Bool :=
  t == taskInfo || t == taskChangeConfig || t == taskWaitForStableConfig
    || t == taskTakeSnapshot || t == taskTransferLdr

/-- ASCII bytes of a list of characters. -/
def ascii (cs : List Char) : Bytes := cs.map (fun c => UInt8.ofNat c.toNat)

/-- `fmt.Sprintf("%T", err)` for the recognised error types. -/
def nmNotLeader : Bytes := ascii
  ['r','a','f','t','.','N','o','t','L','e','a','d','e','r','E','r','r','o','r']
def nmPlain : Bytes := ascii ['r','a','f','t','.','p','l','a','i','n','E','r','r','o','r']
def nmTemporary : Bytes := ascii
  ['r','a','f','t','.','t','e','m','p','o','r','a','r','y','E','r','r','o','r']
def nmInProgress : Bytes := ascii
  ['r','a','f','t','.','I','n','P','r','o','g','r','e','s','s','E','r','r','o','r']
/-- dynamic type of `errors.New(s)`, which is what every other error decodes to. -/
def nmErrorString : Bytes := ascii
  ['*','e','r','r','o','r','s','.','e','r','r','o','r','S','t','r','i','n','g']

/-- `InProgressError(s).Error()` = "raft: another " + s + " in progress". -/
def inProgressText (s : Bytes) : Bytes :=
  ascii ['r','a','f','t',':',' ','a','n','o','t','h','e','r',' '] ++ s ++
  ascii [' ','i','n',' ','p','r','o','g','r','e','s','s']

/-- The error of a completed task as `encodeTaskResp` sees it.  `other` is any error whose
`%T` is `typeName` (not one of the four recognised names) and whose `Error()` is `text`. -/
inductive TaskErr
  | notLeader (leader : Node) (lost : Bool)
  | plain (s : Bytes)
  | temporary (s : Bytes)
  | inProgress (s : Bytes)
  | other (typeName : Bytes) (text : Bytes)
  deriving DecidableEq, Repr

/-- The result of a completed task (`Task.Err()` / `Task.Result()`). -/
inductive TaskResult
  | err (e : TaskErr)
  | none
  | index (v : UInt64)
  | config (c : Config)
  | info (i : Info)
  deriving DecidableEq, Repr

def TaskErr.typeName : TaskErr → Bytes
  | .notLeader _ _ => nmNotLeader
  | .plain _ => nmPlain
  | .temporary _ => nmTemporary
  | .inProgress _ => nmInProgress
  | .other tn _ => tn

def encTaskErr : TaskErr → Bytes
  | .notLeader n lost => encBytes nmNotLeader ++ encNode n ++ encBool lost
  | .plain s => encBytes nmPlain ++ encBytes s
  | .temporary s => encBytes nmTemporary ++ encBytes s
  | .inProgress s => encBytes nmInProgress ++ encBytes (inProgressText s)
  | .other tn text => encBytes tn ++ encBytes text

/-- `encodeTaskResp`: driven by the dynamic type of the result, not by the task type. -/
def encTaskResp : TaskResult → Bytes
  | .err e => encTaskErr e
  | .none => encBytes []
  | .index v => encBytes [] ++ encU64 v
  | .config c => encBytes [] ++ encConfig c
  | .info i => encBytes [] ++ encInfo i

/-- `decodeTaskResp(typ, r)`: driven by the task type. -/
def decTaskResp (typ : UInt8) : Decoder TaskResult := do
  let errType ← decBytes
  if errType ≠ [] then
    if errType = nmNotLeader then do
      let n ← decNode
      let lost ← decBool
      pure (.err (.notLeader n lost))
    else do
      let s ← decBytes
      if errType = nmPlain then pure (.err (.plain s))
      else if errType = nmTemporary then pure (.err (.temporary s))
      else if errType = nmInProgress then pure (.err (.inProgress s))
      else pure (.err (.other nmErrorString s))
  else if typ = taskInfo then do
    let i ← decInfo
    pure (.info i)
  else if typ = taskWaitForStableConfig then do
    let c ← decConfig
    pure (.config c)
  else if typ = taskChangeConfig ∨ typ = taskTransferLdr then
    pure .none
  else if typ = taskTakeSnapshot then do
    let v ← decU64
    pure (.index v)
  else Decoder.fail .invalidTaskType

def canonTaskErr : TaskErr → TaskErr
  | .notLeader n lost => .notLeader n lost
  | .plain s => .plain s
  | .temporary s => .temporary s
  | .inProgress s => .inProgress (inProgressText s)   -- kind kept, text re-wrapped (Error())
  | .other _ text => .other nmErrorString text

def canonTaskResult : TaskResult → TaskResult
  | .err e => .err (canonTaskErr e)
  | .none => .none
  | .index v => .index v
  | .config c => .config (canonConfig c)
  | .info i => .info (canonInfo i)

/-- The result type the client expects for a task type. -/
def taskCompat (typ : UInt8) : TaskResult → Bool
  | .err _ => true
  | .none => typ == taskChangeConfig || typ == taskTransferLdr
  | .index _ => typ == taskTakeSnapshot
  | .config _ => typ == taskWaitForStableConfig
  | .info _ => typ == taskInfo

/-! ## admin requests (client.go writes, server.handleTask parses) -/

inductive AdminReq
  | info
  | changeConfig (c : Config)
  | waitForStable
  | takeSnapshot (threshold : UInt64)
  | transferLdr (target : UInt64) (timeout : UInt64)
  deriving DecidableEq, Repr

def AdminReq.typ : AdminReq → UInt8
  | .info => taskInfo
  | .changeConfig _ => taskChangeConfig
  | .waitForStable => taskWaitForStableConfig
  | .takeSnapshot _ => taskTakeSnapshot
  | .transferLdr _ _ => taskTransferLdr

def encAdminBody : AdminReq → Bytes
  | .info => []
  | .changeConfig c => encConfig c
  | .waitForStable => []
  | .takeSnapshot th => encU64 th
  | .transferLdr target timeout => encU64 target ++ encU64 timeout

/-- type byte followed by the body, as the `Client` methods write it. -/
def encAdminReq (r : AdminReq) : Bytes := encU8 r.typ ++ encAdminBody r

/-- the body parsing of `server.handleTask(typ, c)`. -/
def decAdminBody (typ : UInt8) : Decoder AdminReq :=
  if typ = taskInfo then pure .info
  else if typ = taskChangeConfig then do
    let c ← decConfig
    pure (.changeConfig c)
  else if typ = taskWaitForStableConfig then pure .waitForStable
  else if typ = taskTakeSnapshot then do
    let th ← decU64
    pure (.takeSnapshot th)
  else if typ = taskTransferLdr then do
    let target ← decU64
    let timeout ← decU64
    pure (.transferLdr target timeout)
  else Decoder.fail .invalidTaskType

def decAdminReq : Decoder AdminReq := do
  let t ← decU8
  decAdminBody t

def canonAdminReq : AdminReq → AdminReq
  | .changeConfig c => .changeConfig (canonConfig c)
  | r => r

/-! ## the request stream of one connection (server.handleConn + rpc.go) -/

/-- `io.CopyN(_, r, size)` with `size : int64`: nothing is read when `size <= 0`. -/
def snapBodyLen (size : UInt64) : Nat := if size.toNat < 2 ^ 63 then size.toNat else 0

/-- One message on the wire, with everything that follows its header. -/
inductive Msg
  | identity (r : IdentityReq)
  | vote (r : VoteReq)
  | append (h : AppendReq) (entries : List Entry)
  | installSnap (h : InstallSnapReq) (body : Bytes)
  | timeoutNow (r : TimeoutNowReq)
  | admin (r : AdminReq)
  deriving DecidableEq, Repr

def encMsg : Msg → Bytes
  | .identity r => encU8 0 ++ encIdentityReq r
  | .vote r => encU8 1 ++ encVoteReq r
  | .append h es => encU8 2 ++ encAppendReq h ++ encList encEntry es
  | .installSnap h body => encU8 3 ++ encInstallSnapReq h ++ body
  | .timeoutNow r => encU8 4 ++ encTimeoutNowReq r
  | .admin r => encAdminReq r

/-- What the server reads for one message: the type byte, the header, and then the
entries (`onAppendEntriesRequest`, also its `drain` path) or the snapshot bytes. -/
def decMsg : Decoder Msg := do
  let b ← decU8
  if isValidTask b then do
    let r ← decAdminBody b
    pure (.admin r)
  else if b = 0 then do
    let r ← decIdentityReq
    pure (.identity r)
  else if b = 1 then do
    let r ← decVoteReq
    pure (.vote r)
  else if b = 2 then do
    let h ← decAppendReq
    let es ← decList decEntry h.numEntries.toNat
    pure (.append h es)
  else if b = 3 then do
    let h ← decInstallSnapReq
    let body ← copyN (snapBodyLen h.size)
    pure (.installSnap h body)
  else if b = 4 then do
    let r ← decTimeoutNowReq
    pure (.timeoutNow r)
  else Decoder.fail .invalidRpcType

def canonMsg : Msg → Msg
  | .installSnap h body => .installSnap (canonInstallSnapReq h) body
  | .admin r => .admin (canonAdminReq r)
  | m => m

/-- A pipelined stream. -/
def encStream (ms : List Msg) : Bytes := encList encMsg ms

/-! ## value files (value.go): name `"<v1>-<v2><ext>"` -/

def digitChar (d : Nat) : Char :=
  match d with
  | 0 => '0' | 1 => '1' | 2 => '2' | 3 => '3' | 4 => '4'
  | 5 => '5' | 6 => '6' | 7 => '7' | 8 => '8' | _ => '9'

/-- Decimal digits, most significant first, no leading zero (`%d`). -/
def toDigits (n : Nat) : List Char :=
  if n < 10 then [digitChar n] else toDigits (n / 10) ++ [digitChar (n % 10)]
decreasing_by omega

def digitVal (c : Char) : Option Nat :=
  if '0' ≤ c ∧ c ≤ '9' then some (c.toNat - 48) else none

/-- Value of a digit string read left to right on top of `acc`; `none` on a non-digit. -/
def ofDigitsAux : List Char → Nat → Option Nat
  | [], acc => some acc
  | c :: cs, acc =>
    match digitVal c with
    | none => none
    | some d => ofDigitsAux cs (acc * 10 + d)

/-- `strconv.ParseUint(s, 10, _)` before the range check: non-empty, digits only. -/
def ofDigits (cs : List Char) : Option Nat :=
  if cs = [] then none else ofDigitsAux cs 0

inductive ValErr
  | invalid   -- "raft: invalid value file …" (no '-', syntax error or out of range)
  deriving DecidableEq, Repr

/-- `strconv.ParseInt(s, 10, 64)` followed by the `uint64(...)` conversion (pre-fix reader). -/
def parseInt64 (cs : List Char) : Except ValErr UInt64 :=
  match cs with
  | [] => .error .invalid
  | c :: rest =>
    if c = '-' then
      match ofDigits rest with
      | none => .error .invalid
      | some n => if n ≤ 2 ^ 63 then .ok (UInt64.ofNat (2 ^ 64 - n)) else .error .invalid
    else
      match ofDigits (if c = '+' then rest else cs) with
      | none => .error .invalid
      | some n => if n < 2 ^ 63 then .ok (UInt64.ofNat n) else .error .invalid

/-- `strconv.ParseUint(s, 10, 64)`. -/
def parseUint64 (cs : List Char) : Except ValErr UInt64 :=
  match ofDigits cs with
  | none => .error .invalid
  | some n => if n < 2 ^ 64 then .ok (UInt64.ofNat n) else .error .invalid

/-- Split at the first `'-'` (`strings.IndexByte(s, '-')`). -/
def splitDash : List Char → Option (List Char × List Char)
  | [] => none
  | c :: cs =>
    if c = '-' then some ([], cs)
    else
      match splitDash cs with
      | none => none
      | some r => some (c :: r.1, r.2)

def formatValueChars (a b : UInt64) : List Char :=
  toDigits a.toNat ++ '-' :: toDigits b.toNat

/-- `fmt.Sprintf("%d-%d", v1, v2)` (the extension is not part of the model). -/
def formatValue (a b : UInt64) : String := String.ofList (formatValueChars a b)

def parseValueWith (p : List Char → Except ValErr UInt64) (cs : List Char) :
    Except ValErr (UInt64 × UInt64) :=
  match splitDash cs with
  | none => .error .invalid
  | some r =>
    match p r.1 with
    | .error e => .error e
    | .ok v1 =>
      match p r.2 with
      | .error e => .error e
      | .ok v2 => .ok (v1, v2)

/-- What `openValue` does with the file name (extension already trimmed):
`strconv.ParseUint` on both parts (no sign accepted, range 0 … 2^64-1). -/
def parseValue (s : String) : Except ValErr (UInt64 × UInt64) :=
  parseValueWith parseUint64 s.toList

/-- Historical note — the reader BEFORE the repair (`strconv.ParseInt`, then conversion to
uint64): it could not read back values ≥ 2^63. Not used by the current code. -/
def parseValueSigned (s : String) : Except ValErr (UInt64 × UInt64) :=
  parseValueWith parseInt64 s.toList

end RaftVerif.Codec
