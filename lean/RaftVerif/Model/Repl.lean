/-
M5 — one replication goroutine (replication.go) as a deterministic I/O automaton: the step functions
`writeAppendEntriesReq`, `onAppendEntriesResp`, `sendInstallSnapReq` (request + handling of the
response), `onLeaderUpdate`. The control flow of `replicate`/`runLoop` (probe loop, pipelining,
back-off) is played by the harness and is not modelled. Core Lean only.
-/
import RaftVerif.Model.Handlers

namespace Raft
namespace Repl

/-- `maxAppendEntries` -/
abbrev maxAppendEntries : Nat := 64

/-- fields of `replication` + the `appendReq` it reuses -/
structure State where
  matchIndex : Nat := 0
  nextIndex : Nat := 1
  ldrLastIndex : Nat := 0
  viewPrev : Nat := 0          -- r.log.PrevIndex()
  viewLast : Nat := 0          -- r.log.LastIndex()
  ldrCommit : Nat := 0         -- req.ldrCommitIndex
  term : Nat := 0              -- req.term
  src : Nat := 0               -- req.src
  voter : Bool := false
  deriving DecidableEq, Repr, Inhabited

/-- what the replication reads: the leader's log and its latest snapshot -/
structure Env where
  log : NLog := {}
  snapIndex : Nat := 0
  snapTerm : Nat := 0
  snap : Option SnapFile := none   -- the snapshot `snaps.open()` returns
  deriving Repr, Inhabited

structure Note where
  kind : String
  val : Nat
  deriving DecidableEq, Repr, Inhabited

structure Out where
  st : State
  err : String := ""               -- "" | notFound | stop | faultyFollower | remote | opError
  append : Option Node.AppendReq := none
  install : Option Node.InstallReq := none
  notes : List Note := []
  panic : String := ""
  deriving Repr, Inhabited

/-- `r.log.Get(i)` through the view `[viewPrev, viewLast]`: `none` = ErrNotFound; beyond the view: panic. -/
def viewTerm (st : State) (env : Env) (i : Nat) : Except String (Option Nat) :=
  if i > st.viewLast then .error "logpanic"
  else if i ≤ st.viewPrev then .ok none
  else .ok ((env.log.get? i).map (·.term))

def viewContains (st : State) (i : Nat) : Bool := i > st.viewPrev && i ≤ st.viewLast

/-- `replication.writeAppendEntriesReq`. -/
def writeAppend (st : State) (env : Env) (sendEntries : Bool) : Out :=
  let prev := st.nextIndex - 1
  let pt : Except String (Option Nat) :=
    if prev = 0 then .ok (some 0)
    else if prev = env.snapIndex then .ok (some env.snapTerm)
    else viewTerm st env prev
  match pt with
  | .error p => { st := st, panic := p }
  | .ok none => { st := st, err := "notFound" }
  | .ok (some prevTerm) =>
    let n := if sendEntries then min (st.ldrLastIndex - prev) maxAppendEntries else 0
    if n > 0 ∧ !viewContains st st.nextIndex then { st := st, err := "notFound" }
    else if n > 0 ∧ st.nextIndex + (n - 1) > st.viewLast then { st := st, panic := "logpanic" }
    else
      let es := (List.range n).filterMap (fun k => env.log.get? (st.nextIndex + k))
      { st := { st with nextIndex := st.nextIndex + n },
        append := some { term := st.term, src := st.src, prevLogIndex := prev, prevLogTerm := prevTerm,
                         ldrCommitIndex := st.ldrCommit, entries := es } }

/-- `replication.onAppendEntriesResp`. -/
def onAppendResp (st : State) (term result lastLogIndex reqLastIndex : Nat) : Out :=
  if result = rStaleTerm then { st := st, err := "stop", notes := [⟨"newTerm", term⟩] }
  else if result = rSuccess then
    if reqLastIndex > st.matchIndex then
      { st := { st with matchIndex := reqLastIndex }, notes := [⟨"matchIndex", reqLastIndex⟩] }
    else { st := st }
  else if result = rPrevEntryNotFound ∨ result = rPrevTermMismatch then
    if lastLogIndex < st.matchIndex then { st := st, err := "faultyFollower" }
    else { st := { st with nextIndex := min (st.nextIndex - 1) (lastLogIndex + 1) } }
  else if result = rUnexpectedErr then { st := st, err := "remote" }
  else { st := st, panic := "error" }

/-- `replication.sendInstallSnapReq` with the follower's response `(term, result)`. -/
def installSnap (st : State) (env : Env) (term result : Nat) : Out :=
  match env.snap with
  | none => { st := st, err := "opError" }
  | some f =>
    let req : Node.InstallReq := { term := st.term, src := st.src, lastIndex := f.index, lastTerm := f.term,
                                   lastConfig := f.config, data := f.data }
    if result = rStaleTerm then { st := st, err := "stop", install := some req, notes := [⟨"newTerm", term⟩] }
    else if result = rSuccess then
      { st := { st with matchIndex := f.index, nextIndex := f.index + 1 }, install := some req,
        notes := [⟨"matchIndex", f.index⟩] }
    else if result = rUnexpectedErr then { st := st, err := "remote", install := some req }
    else { st := st, install := some req, panic := "error" }

/-- `replication.onLeaderUpdate` with the view `[p, l]`, the commit index and (optionally) the node's voting right. -/
def onLeaderUpdate (st : State) (p l commit : Nat) (voter : Option Bool) : Out :=
  { st := { st with viewPrev := p, viewLast := l, ldrLastIndex := l, ldrCommit := commit,
                    voter := voter.getD st.voter },
    notes := if p ≠ st.viewPrev then [⟨"removeLTE", p⟩] else [] }

end Repl
end Raft
