/-
M5b — the CONTROL FLOW of `replication.replicate` (replication.go) up to its first pipelined request,
built from the step functions of Model/Repl.lean (`writeAppend`, `onAppendResp`, `installSnap`,
`onLeaderUpdate`) and a follower that answers by the consistency check of `onAppendEntriesRequest` /
`onInstallSnapRequest` on a plain log (index → term, snapshot index, commit index, term).

* `probeRound` / `probe`  — the inner "find matchIndex" loop: write a request without entries, read the
  response, `onAppendEntriesResp`, `checkLeaderUpdate`, until `matchIndex+1 == nextIndex`; it ends with
  `matched`, `needInstall` (`writeAppendEntriesReq` returned ErrNotFound), `failed` or `fuel`.
* `installRound`          — `sendInstallSnapReq` including its wait for the leader update.
* `pipeStep`              — the first request of the pipeline writer (`sendEntries = true`) and its answer.
* `replicate`             — the outer loop gluing them exactly as `replicate()` does.

The engine `probelive` runs the REAL `replicate()` over a scripted connection against a real follower node
and compares the whole trace with `replicate` below. Core Lean only.
-/
import RaftVerif.Model.Repl

namespace Raft
namespace Repl

/-- The follower as a replication can observe it: term, snapshot, commit index and the terms of the entries
`snapIndex+1, snapIndex+2, …` (its log starts right after its snapshot). -/
structure Follower where
  term : Nat := 0
  snapIndex : Nat := 0
  snapTerm : Nat := 0
  commit : Nat := 0
  terms : List Nat := []
  deriving DecidableEq, Repr, Inhabited

/-- what the loop reads back: `appendResp` / `installSnapResp`; kind "eof" = the connection was dropped -/
structure Resp where
  kind : String := "append"
  term : Nat := 0
  result : Nat := 0
  lastLogIndex : Nat := 0
  deriving DecidableEq, Repr, Inhabited

structure Ans where
  flr : Follower
  resp : Resp
  deriving Repr, Inhabited

namespace Follower

/-- `r.lastLogIndex` -/
def lastIndex (f : Follower) : Nat := f.snapIndex + f.terms.length

/-- term of the follower's entry at `i` (`none`: not in its log) -/
def termAt (f : Follower) (i : Nat) : Option Nat :=
  if i ≤ f.snapIndex then none else f.terms[i - f.snapIndex - 1]?

/-- `Raft.canCommit` -/
def canCommit (f : Follower) (q : Node.AppendReq) (index term : Nat) : Bool :=
  decide (q.ldrCommitIndex ≥ index) && decide (term = q.term) && decide (index > f.commit)

/-- loop state of the entry-consuming loop of `onAppendEntriesRequest` -/
structure Consume where
  flr : Follower
  index : Nat
  term : Nat
  sync : Bool
  deriving Repr, Inhabited

/-- the `for req.numEntries > 0` loop: skip what the snapshot covers, skip entries already held, truncate
at the first conflict, append. (An entry beyond `lastIndex+1` cannot be sent by a replication; the real
`storage.appendEntry` would panic, here it is appended.) -/
def consume (c : Consume) : List Entry → Consume
  | [] => c
  | e :: es =>
    let f := c.flr
    if e.index ≤ f.snapIndex then consume { c with index := e.index, term := e.term } es
    else if e.index ≤ f.lastIndex then
      if f.termAt e.index = some e.term then consume { c with index := e.index, term := e.term } es
      else
        consume { flr := { f with terms := f.terms.take (e.index - 1 - f.snapIndex) ++ [e.term] },
                  index := e.index, term := e.term, sync := true } es
    else
      consume { flr := { f with terms := f.terms ++ [e.term] }, index := e.index, term := e.term, sync := true } es

/-- **the consistency check**: `Raft.onAppendEntriesRequest` on the plain log. -/
def answer (f : Follower) (q : Node.AppendReq) : Ans :=
  if q.term < f.term then { flr := f, resp := { term := f.term, result := rStaleTerm, lastLogIndex := f.lastIndex } }
  else
    let f1 : Follower := { f with term := q.term }
    if q.prevLogIndex > f1.snapIndex ∧ q.prevLogIndex > f1.lastIndex then
      { flr := f1, resp := { term := f1.term, result := rPrevEntryNotFound, lastLogIndex := f1.lastIndex } }
    else if q.prevLogIndex > f1.snapIndex ∧ f1.termAt q.prevLogIndex ≠ some q.prevLogTerm then
      { flr := f1, resp := { term := f1.term, result := rPrevTermMismatch, lastLogIndex := f1.lastIndex } }
    else
      let f2 : Follower :=
        if q.prevLogIndex > f1.snapIndex ∧ f1.canCommit q q.prevLogIndex q.prevLogTerm = true
        then { f1 with commit := q.prevLogIndex } else f1
      let c := consume { flr := f2, index := q.prevLogIndex, term := q.prevLogTerm, sync := false } q.entries
      let f3 : Follower :=
        if c.sync = true ∧ c.flr.canCommit q c.index c.term = true then { c.flr with commit := c.index } else c.flr
      { flr := f3, resp := { term := f3.term, result := rSuccess, lastLogIndex := f3.lastIndex } }

/-- `Raft.onInstallSnapRequest` on the plain log. -/
def answerInstall (f : Follower) (q : Node.InstallReq) : Ans :=
  if q.term < f.term then { flr := f, resp := { kind := "install", term := f.term, result := rStaleTerm } }
  else
    let f1 : Follower := { f with term := q.term }
    if q.lastIndex ≤ f1.commit then { flr := f1, resp := { kind := "install", term := f1.term, result := rSuccess } }
    else if f1.termAt q.lastIndex = some q.lastTerm then
      { flr := f1, resp := { kind := "install", term := f1.term, result := rSuccess } }
    else
      { flr := { f1 with snapIndex := q.lastIndex, snapTerm := q.lastTerm, commit := q.lastIndex, terms := [] },
        resp := { kind := "install", term := f1.term, result := rSuccess } }

end Follower

/-- content of a `leaderUpdate` -/
structure Upd where
  prev : Nat := 0
  last : Nat := 0
  commit : Nat := 0
  voter : Option Bool := none
  deriving DecidableEq, Repr, Inhabited

/-- What happens around the loop while it waits for the response of one exchange: the leader may deliver
a `leaderUpdate` (into `leaderUpdateCh`, replacing one that still waits there), and the follower may be
faulty: 1 = its storage was replaced by an empty one before it answers, 2 = it answers `unexpectedErr`,
3 = the connection is dropped (nothing to read). -/
structure Tick where
  upd : Option Upd := none
  fault : Nat := 0
  deriving DecidableEq, Repr, Inhabited

namespace Follower

def exchange (f : Follower) (t : Tick) (q : Node.AppendReq) : Ans :=
  if t.fault = 1 then ({} : Follower).answer q
  else if t.fault = 2 then { flr := f, resp := { term := 0, result := rUnexpectedErr, lastLogIndex := 0 } }
  else if t.fault = 3 then { flr := f, resp := { kind := "eof" } }
  else f.answer q

def exchangeInstall (f : Follower) (t : Tick) (q : Node.InstallReq) : Ans :=
  if t.fault = 1 then ({} : Follower).answerInstall q
  else if t.fault = 2 then { flr := f, resp := { kind := "install", term := 0, result := rUnexpectedErr } }
  else if t.fault = 3 then { flr := f, resp := { kind := "eof" } }
  else f.answerInstall q

end Follower

/-- one request of the trace with the response given for it; `st` is the replication's state at the moment
the request was complete on the wire (`writeAppendEntriesReq` advances `nextIndex` past the entries it sent
only after that) -/
structure Exch where
  kind : String := "append"
  pipelined : Bool := false
  st : State := {}
  append : Option Node.AppendReq := none
  install : Option Node.InstallReq := none
  resp : Resp := {}
  deriving Repr, Inhabited

/-- everything the loop carries -/
structure Loop where
  st : State := {}
  flr : Follower := {}
  ticks : List Tick := []
  pending : Option Upd := none      -- content of `leaderUpdateCh`
  trace : List Exch := []
  notes : List Note := []
  deriving Repr, Inhabited

/-- result of a phase: `ending` says how it ended -/
structure PR where
  loop : Loop
  ending : String
  err : String := ""
  panic : String := ""
  deriving Repr, Inhabited

/-- `checkLeaderUpdate(stopCh, req, false)`: take a waiting leader update, without blocking -/
def Loop.checkUpdate (s : Loop) : Loop :=
  match s.pending with
  | none => s
  | some u =>
    let o := onLeaderUpdate s.st u.prev u.last u.commit u.voter
    { s with st := o.st, notes := s.notes ++ o.notes, pending := none }

/-- the tick of the exchange that starts now -/
def Loop.tick (s : Loop) : Tick := s.ticks.headD {}

/-- an exchange happened: its tick is consumed, the update it delivered waits in the channel -/
def Loop.afterExchange (s : Loop) (x : Exch) (flr : Follower) : Loop :=
  { s with flr := flr, ticks := s.ticks.tail,
           pending := match s.tick.upd with | some u => some u | none => s.pending,
           trace := s.trace ++ [x] }

/-- one iteration of the "find matchIndex" loop of `replicate`. ending: continue | matched | needInstall | failed -/
def probeRound (env : Env) (s : Loop) : PR :=
  let w := writeAppend s.st env false
  if w.panic ≠ "" then { loop := s, ending := "failed", panic := w.panic }
  else if w.err = "notFound" then { loop := s, ending := "needInstall" }
  else if w.err ≠ "" then { loop := s, ending := "failed", err := w.err }
  else
    match w.append with
    | none => { loop := s, ending := "failed", err := "model" }
    | some q =>
      let a := s.flr.exchange s.tick q
      let s1 := { s with st := w.st }.afterExchange { kind := "append", st := w.st, append := some q, resp := a.resp } a.flr
      if a.resp.kind = "eof" then { loop := s1, ending := "failed", err := "error" }
      else
        let o := onAppendResp s1.st a.resp.term a.resp.result a.resp.lastLogIndex (s1.st.nextIndex - 1)
        let s2 := { s1 with st := o.st, notes := s1.notes ++ o.notes }
        if o.panic ≠ "" then { loop := s2, ending := "failed", panic := o.panic }
        else if o.err ≠ "" then { loop := s2, ending := "failed", err := o.err }
        else
          let s3 := s2.checkUpdate
          if s3.st.matchIndex + 1 = s3.st.nextIndex then { loop := s3, ending := "matched" }
          else { loop := s3, ending := "continue" }

/-- **the probe loop** with `fuel` iterations at most. ending: matched | needInstall | failed | fuel -/
def probe (env : Env) : Nat → Loop → PR
  | 0, s => { loop := s, ending := "fuel" }
  | fuel + 1, s =>
    let r := probeRound env s
    if r.ending = "continue" then probe env fuel r.loop else r

/-- `sendInstallSnapReq`: request, response, and on success the wait `for req.lastIndex > r.ldrLastIndex`
(which spins until a leader update arrives). ending: ok | failed | spin -/
def installRound (env : Env) (s : Loop) : PR :=
  match env.snap with
  | none => { loop := s, ending := "failed", err := "opError" }
  | some f =>
    let req : Node.InstallReq := { term := s.st.term, src := s.st.src, lastIndex := f.index, lastTerm := f.term,
                                   lastConfig := f.config, data := f.data }
    let a := s.flr.exchangeInstall s.tick req
    let s1 := s.afterExchange { kind := "install", st := s.st, install := some req, resp := a.resp } a.flr
    if a.resp.kind = "eof" then { loop := s1, ending := "failed", err := "error" }
    else
      let o := installSnap s1.st env a.resp.term a.resp.result
      if o.panic ≠ "" then { loop := { s1 with notes := s1.notes ++ o.notes }, ending := "failed", panic := o.panic }
      else if o.err ≠ "" then { loop := { s1 with notes := s1.notes ++ o.notes }, ending := "failed", err := o.err }
      else
        let s2 := if f.index > s1.st.ldrLastIndex then s1.checkUpdate else s1
        if f.index > s2.st.ldrLastIndex then { loop := s2, ending := "spin" }
        else
          let o2 := installSnap s2.st env a.resp.term a.resp.result
          { loop := { s2 with st := o2.st, notes := s2.notes ++ o2.notes }, ending := "ok" }

/-- the first request of the pipeline writer and its answer. ending: pipelined | again (ErrNotFound: back to
the probe loop) | failed -/
def pipeStep (env : Env) (s : Loop) : PR :=
  let w := writeAppend s.st env true
  if w.panic ≠ "" then { loop := s, ending := "failed", err := "error" }   -- the writer recovers a log panic into an error
  else if w.err = "notFound" then { loop := s, ending := "again" }
  else if w.err ≠ "" then { loop := s, ending := "failed", err := w.err }
  else
    match w.append with
    | none => { loop := s, ending := "failed", err := "model" }
    | some q =>
      let a := s.flr.exchange s.tick q
      let s1 := { s with st := w.st }.afterExchange
        { kind := "append", pipelined := true, st := s.st, append := some q, resp := a.resp } a.flr
      if a.resp.kind = "append" ∧ a.resp.result = rSuccess then
        let o := onAppendResp s1.st a.resp.term a.resp.result a.resp.lastLogIndex (s1.st.nextIndex - 1)
        { loop := { s1 with st := o.st, notes := s1.notes ++ o.notes }, ending := "pipelined" }
      else { loop := s1, ending := "pipelined" }

/-- fuel the outer loop gives the probe loop: by `C17Probe.probe_terminates` (`nextIndex - matchIndex` rounds
are enough) it never runs out when `matchIndex` is sound and the follower answers by the consistency check -/
def probeFuel (s : Loop) : Nat := s.st.nextIndex + 2

/-- **`replicate()`** until its first pipelined request was answered. ending: pipelined | failed | spin | fuel -/
def replicate (env : Env) : Nat → Loop → PR
  | 0, s => { loop := s, ending := "fuel" }
  | n + 1, s =>
    let p := probe env (probeFuel s) s
    if p.ending = "needInstall" then
      let i := installRound env p.loop
      if i.ending = "ok" then replicate env n i.loop else i
    else if p.ending = "matched" then
      let s1 := p.loop
      if s1.st.nextIndex < s1.st.ldrLastIndex ∧ viewContains s1.st s1.st.nextIndex = false then
        let i := installRound env s1
        if i.ending = "ok" then replicate env n i.loop
        else if i.ending = "spin" then i
        else
          -- `if err := r.sendInstallSnapReq(c, req); err == nil { continue }`: an error falls through to pipelining
          if i.panic ≠ "" then i
          else
            let q := pipeStep env i.loop
            if q.ending = "again" then replicate env n q.loop else q
      else
        let q := pipeStep env s1
        if q.ending = "again" then replicate env n q.loop else q
    else p

end Repl
end Raft
