/-
M3 — configurations (config.go): Node, Config, Configs and the leaf decision functions.
Go maps `map[uint64]Node` are modelled as association lists kept sorted by id with unique ids.
Core Lean only.
-/
namespace Raft

/-- Action constants of config.go (`Action uint8`). The wire carries a raw byte, so `Nat`. -/
abbrev actNone : Nat := 0
abbrev actPromote : Nat := 1
abbrev actDemote : Nat := 2
abbrev actRemove : Nat := 3
abbrev actForceRemove : Nat := 4

/-- `type Node struct` of config.go. -/
structure CNode where
  id : Nat := 0
  addr : String := ""
  voter : Bool := false
  data : String := ""
  action : Nat := 0
  deriving DecidableEq, Repr, Inhabited

/-- `Node.nextAction` (config.go). -/
def CNode.nextAction (n : CNode) : Nat :=
  if n.action = actForceRemove then actForceRemove
  else if n.voter then
    (if n.action = actDemote ∨ n.action = actRemove then actDemote else actNone)
  else if n.action = actPromote ∨ n.action = actRemove then n.action
  else actNone

/-- `type Config struct`: nodes sorted by id. -/
structure Config where
  nodes : List CNode := []
  index : Nat := 0
  term : Nat := 0
  deriving DecidableEq, Repr, Inhabited

namespace Config

def find? (c : Config) (id : Nat) : Option CNode := c.nodes.find? (·.id == id)

/-- Go's `c.Nodes[id]` (zero value when absent). -/
def get (c : Config) (id : Nat) : CNode := (c.find? id).getD {}

def has (c : Config) (id : Nat) : Bool := (c.find? id).isSome

def insertSorted (n : CNode) : List CNode → List CNode
  | [] => [n]
  | m :: ms =>
    if n.id < m.id then n :: m :: ms
    else if n.id = m.id then n :: ms
    else m :: insertSorted n ms

/-- Go's `c.Nodes[n.ID] = n`. -/
def set (c : Config) (n : CNode) : Config := { c with nodes := insertSorted n c.nodes }

/-- Go's `delete(c.Nodes, id)`. -/
def erase (c : Config) (id : Nat) : Config := { c with nodes := c.nodes.filter (·.id != id) }

def isBootstrapped (c : Config) : Bool := c.index > 0

def isStable (c : Config) : Bool := c.nodes.all (·.action == actNone)

def isVoter (c : Config) (id : Nat) : Bool :=
  match c.find? id with
  | some n => n.voter
  | none => false

def voters (c : Config) : List Nat := (c.nodes.filter (·.voter)).map (·.id)

def numVoters (c : Config) : Nat := (c.nodes.filter (·.voter)).length

def quorum (c : Config) : Nat := c.numVoters / 2 + 1

def ids (c : Config) : List Nat := c.nodes.map (·.id)

end Config

/-- `type Configs struct`. -/
structure Configs where
  committed : Config := {}
  latest : Config := {}
  deriving DecidableEq, Repr, Inhabited

namespace Configs
def isBootstrapped (c : Configs) : Bool := c.latest.isBootstrapped
def isCommitted (c : Configs) : Bool := c.latest.index == c.committed.index
def isStable (c : Configs) : Bool := c.isCommitted && c.latest.isStable
end Configs

end Raft
