/-
The public editing helpers of `Config` (config.go): `AddVoter`, `AddNonvoter`, `addNode`, `SetAction`, `SetAddr`,
`SetData`.  A user builds the configuration handed to `ChangeConfig` with these, starting from the latest
configuration.  In Go they mutate `c.Nodes` in place and return an error; here they return the new configuration or
the kind of the error (on error the Go code leaves `c.Nodes` untouched — compared by engine `nodediff`, part `cfgEdit`).

`SetAddr` looks the address up with `nodeForAddr`, which iterates a Go map: when two *other* nodes or the node itself
and another node carry the address the answer is the same in every iteration order (`addrUsed` iff a node with another
id has it — unless the node itself has it too and is met first).  The model says `addrUsed` iff some node of another id
has the address; the correspondence skips the one nondeterministic shape (node itself and another one both at `addr`).
-/
import RaftVerif.Model.Handlers

namespace Raft
open Node

inductive EditErr where
  | bootstrapped | invalid | exists | notFound | addrUsed
  deriving DecidableEq, Repr, Inhabited

inductive Edit where
  | addVoter (id : Nat) (addr : String)
  | addNonvoter (id : Nat) (addr : String) (promote : Bool)
  | setAction (id : Nat) (action : Nat)
  | setAddr (id : Nat) (addr : String)
  | setData (id : Nat) (data : String)
  deriving DecidableEq, Repr, Inhabited

namespace Config

/-- `Config.addNode`. -/
def addNode (c : Config) (n : CNode) : Except EditErr Config :=
  if !nodeValid n then .error .invalid
  else if c.has n.id then .error .exists
  else .ok (c.set n)

/-- `Config.AddVoter`. -/
def addVoter (c : Config) (id : Nat) (addr : String) : Except EditErr Config :=
  if c.isBootstrapped then .error .bootstrapped
  else c.addNode { id := id, addr := addr, voter := true }

/-- `Config.AddNonvoter`. -/
def addNonvoter (c : Config) (id : Nat) (addr : String) (promote : Bool) : Except EditErr Config :=
  c.addNode { id := id, addr := addr, action := if promote then actPromote else actNone }

/-- `Config.SetAction`. -/
def setAction (c : Config) (id : Nat) (action : Nat) : Except EditErr Config :=
  match c.find? id with
  | none => .error .notFound
  | some n =>
    let n := { n with action := action }
    if !nodeValid n then .error .invalid else .ok (c.set n)

/-- `Config.SetAddr`. -/
def setAddr (c : Config) (id : Nat) (addr : String) : Except EditErr Config :=
  match c.find? id with
  | none => .error .notFound
  | some n =>
    let n := { n with addr := addr }
    if !nodeValid n then .error .invalid
    else if c.nodes.any (fun m => m.addr == addr && m.id != id) then .error .addrUsed
    else .ok (c.set n)

/-- `Config.SetData`. -/
def setData (c : Config) (id : Nat) (data : String) : Except EditErr Config :=
  match c.find? id with
  | none => .error .notFound
  | some n => .ok (c.set { n with data := data })

def applyEdit (c : Config) : Edit → Except EditErr Config
  | .addVoter id addr => c.addVoter id addr
  | .addNonvoter id addr p => c.addNonvoter id addr p
  | .setAction id a => c.setAction id a
  | .setAddr id addr => c.setAddr id addr
  | .setData id d => c.setData id d

/-- what the Go value holds after the call: the new configuration, or the old one when the call failed -/
def afterEdit (c : Config) (e : Edit) : Config :=
  match c.applyEdit e with
  | .ok c' => c'
  | .error _ => c

/-- a user's editing session -/
def afterEdits (c : Config) (es : List Edit) : Config := es.foldl afterEdit c

end Config
end Raft
