/-
M4 — one step of the raft goroutine: a case of `stateLoop`'s select followed by the role transition
(`release` of the old role, `init` of the new one) that the loop performs.  Core Lean only.
-/
import RaftVerif.Model.Handlers

namespace Raft

inductive Op where
  | vote (q : Node.VoteReq)
  | append (q : Node.AppendReq)
  | install (q : Node.InstallReq)
  | timeoutNow
  | identity (src cid nid : Nat)
  | disconnected (nid : Nat)
  | timeout
  | newEntries (batch : List QItem)
  | changeConfig (task : Nat) (c : Config)
  | takeSnapshot (task threshold : Nat)
  | snapRun
  | snapTaken
  | waitStable (task : Nat)
  | transfer (task target : Nat)
  | voteResult (err : Bool) (term result : Nat)
  | replUpdates (us : List Node.ReplUpdate)
  | transferTimeout
  | timeoutNowResult (src : Nat) (err : Bool) (result : Nat)
  | newTermTimeout
  | shutdown
  deriving Repr, Inhabited

namespace Node

/-- the response built by `createResp` from the state after the handler -/
def mkReply (s : Node) (isVote isAppend : Bool) : RpcReply :=
  { term := s.term, result := s.result, lastLogIndex := (if isAppend then s.lastLogIndex else 0),
    resetTimer := !isVote || s.result == rSuccess }

/-- `replyRPC` after `onRequest`: build the response from the post-state, compute `resetTimer`. -/
def rpcDone (s : Node) (isVote : Bool) (isAppend : Bool := false) : Node :=
  if s.result = rUnexpectedErr then (s.withRpcReply (some (s.mkReply isVote isAppend))).panic "error.unexpectedErr"
  else s.withRpcReply (some (s.mkReply isVote isAppend))

/-- what `rpcDone` leaves as the reply -/
theorem rpcDone_reply (s : Node) (a b : Bool) : (s.rpcDone a b).rpcReply = some (s.mkReply a b) := by
  unfold rpcDone
  split
  · unfold Node.panic; split <;> rfl
  · rfl

/-- Entries submitted to a node that is not the leader (`stateLoop`, case `newEntryCh`). -/
def rejectEntries (s : Node) : List QItem → Node
  | [] => s
  | q :: qs =>
    let s := if q.typ = etDirtyRead then s.reply q.task s!"val:{s.fsm.applied.length}"
             else s.reply q.task (s.notLeader false)
    rejectEntries s qs

/-- `leader.onWaitForStableConfig`. -/
def onWaitForStable (s : Node) (task : Nat) : Node :=
  if s.configs.isStable then s.reply task s!"config:{s.configs.latest.index}"
  else (s.withLdr ({ s.ldr with waitStable := s.ldr.waitStable ++ [task] }))

def handle (s : Node) : Op → Node
  | .vote q => rpcDone (s.onVoteRequest q) true
  | .append q => rpcDone (s.onAppendEntries q) false true
  | .install q => rpcDone (s.onInstallSnap q) false
  | .timeoutNow => rpcDone s.onTimeoutNow false
  | .identity src cid nid =>
    let res : Nat := if s.cid ≠ cid ∨ s.nid ≠ nid then rIdentityMismatch else rSuccess
    let rep : RpcReply := { term := s.term, result := res, lastLogIndex := 0, resetTimer := src == s.leader }
    (s.withRpcReply (some rep))
  | .disconnected nid => if s.leader ≠ 0 ∧ nid ≠ 0 ∧ s.leader = nid then s.setLeader 0 else s
  | .timeout =>
    (match s.role with
     | .follower => s.followerTimeout
     | .candidate => s.startElection
     | .leader => s.checkQuorum)
  | .newEntries batch =>
    if s.role = .leader then storeEntry (fuelFor batch.length) s batch else s.rejectEntries batch
  | .changeConfig task c => if s.role = .leader then s.onChangeConfig task c else s.bootstrap task c
  | .takeSnapshot task threshold => s.onTakeSnapshot task threshold
  | .snapRun => s.snapRun
  | .snapTaken => s.onSnapshotTaken
  | .waitStable task => if s.role = .leader then s.onWaitForStable task else s.reply task (s.notLeader false)
  | .transfer task target => if s.role = .leader then s.onTransfer task target else s.reply task (s.notLeader false)
  | .voteResult err term result => if s.role = .candidate then s.onVoteResult err term result else s
  | .replUpdates us => if s.role = .leader then s.checkReplUpdates us else s
  | .transferTimeout => if s.role = .leader ∧ s.ldr.transfer.active then s.replyTransfer "timeout:transferLeadership" else s
  | .timeoutNowResult src err result =>
    if s.role = .leader ∧ s.ldr.transfer.respPending then s.onTimeoutNowResult src err result else s
  | .newTermTimeout =>
    if s.role = .leader ∧ s.ldr.transfer.newTermTimer
    then ((s.withLdr ({ s.ldr with transfer := { s.ldr.transfer with newTermTimer := false } }))).tryTransfer else s
  | .shutdown => s.shutdown

/-- One iteration of `stateLoop`: handler, then role transitions until stable. -/
def step (s : Node) (op : Op) (rollAt : List Nat) (orders : List (List Nat)) : Node :=
  let s := s.begin rollAt orders
  let cur := s.role
  let s := s.handle op
  match op with
  | .shutdown => s
  | _ => settle 6 s cur

end Node
end Raft
