/-
Node-level view of the segmented log (storage.go on top of log/log.go).

Entry bytes are abstracted: an entry carries its (index, term, type) and either an opaque payload
string or a decoded configuration. Segment layout is kept as the list of segment `prevIndex`es
because compaction granularity (RemoveLTE / CanLTE) depends on it; *whether* an append rolls over to a
new segment depends on byte sizes, which this level does not see — it is an oracle bit supplied per
append (theorems quantify over it). The byte-exact rule lives in Model/SegLog.lean (C13/C14).

`flushed` is the highest index covered by a completed segment sync: what a process crash keeps.
Core Lean only.
-/
import RaftVerif.Model.Config

namespace Raft

/-- entryType constants (messages.go). -/
abbrev etBarrier : Nat := 1
abbrev etUpdate : Nat := 2
abbrev etRead : Nat := 3
abbrev etDirtyRead : Nat := 4
abbrev etNop : Nat := 5
abbrev etConfig : Nat := 6

/-- `type entry struct` with the payload abstracted. `cfg` is `some` iff the entry is an
`entryConfig` whose data decodes. -/
structure Entry where
  index : Nat := 0
  term : Nat := 0
  typ : Nat := 0
  data : String := ""
  cfg : Option Config := none
  deriving DecidableEq, Repr, Inhabited

/-- `entry.isLogEntry`. -/
def isLogEntryTyp (t : Nat) : Bool := !(t == etRead || t == etDirtyRead || t == etBarrier)

/-- `Config.decode(e)`: index and term are taken from the entry. -/
def Entry.config? (e : Entry) : Option Config :=
  if e.typ = etConfig then e.cfg.map (fun c => { c with index := e.index, term := e.term }) else none

/-- The payload of a configuration entry is the node set only. -/
def Config.payload (c : Config) : Config := { c with index := 0, term := 0 }

/-- `Config.encode()` as an entry (index/term of the config). -/
def Config.toEntry (c : Config) : Entry :=
  { index := c.index, term := c.term, typ := etConfig, data := "", cfg := some c.payload }

structure NLog where
  prev : Nat := 0
  entries : List Entry := []
  flushed : Nat := 0
  /-- prevIndex of every segment, ascending; the head is `prev`. Never empty. -/
  segs : List Nat := [0]
  deriving DecidableEq, Repr, Inhabited

namespace NLog

def last (l : NLog) : Nat := l.prev + l.entries.length
def count (l : NLog) : Nat := l.entries.length
def contains (l : NLog) (i : Nat) : Bool := l.prev < i && i ≤ l.last

/-- `Log.Get(i)`: `none` is ErrNotFound (i ≤ prev) — callers never pass i > last. -/
def get? (l : NLog) (i : Nat) : Option Entry :=
  if l.prev < i then l.entries[i - l.prev - 1]? else none

def lastSegPrev (l : NLog) : Nat := l.segs.getLast?.getD l.prev

/-- `Log.Append` (+ the implicit Commit and new segment when `roll`). -/
def append (l : NLog) (e : Entry) (roll : Bool) : NLog :=
  if roll then
    { l with entries := l.entries ++ [e], flushed := l.last, segs := l.segs ++ [l.last] }
  else
    { l with entries := l.entries ++ [e] }

/-- `Log.CommitN(n)`: only the last segment can be dirty; it is synced iff its prevIndex < n. -/
def commitN (l : NLog) (n : Nat) : NLog :=
  if l.lastSegPrev < n then { l with flushed := l.last } else l

/-- `Log.RemoveGTE(i)` for `i > prev` (callers guarantee it). -/
def removeGTE (l : NLog) (i : Nat) : NLog :=
  let keep := l.segs.filter (· < i - 1)
  { l with
    entries := l.entries.take (i - 1 - l.prev)
    flushed := i - 1
    segs := if keep.isEmpty then [i - 1] else keep }

/-- Segment boundaries that `RemoveLTE(i)` would drop: leading segments whose successor starts ≤ i. -/
def dropLTE (i : Nat) : List Nat → List Nat
  | a :: b :: rest => if a < b ∧ b ≤ i then dropLTE i (b :: rest) else a :: b :: rest
  | segs => segs

/-- `Log.CanLTE(i)`. -/
def canLTE (l : NLog) (i : Nat) : Nat := ((dropLTE i l.segs).head?).getD l.prev

/-- `Log.RemoveLTE(i)` (commits first). -/
def removeLTE (l : NLog) (i : Nat) : NLog :=
  let segs' := dropLTE i l.segs
  let prev' := (segs'.head?).getD l.prev
  { prev := prev'
    entries := l.entries.drop (prev' - l.prev)
    flushed := l.last
    segs := segs' }

/-- `Log.Reset(lastIndex)`. -/
def reset (i : Nat) : NLog := { prev := i, entries := [], flushed := i, segs := [i] }

/-- `ViewAt(p, q) != nil` (q ≤ last assumed). -/
def viewOk (l : NLog) (p q : Nat) : Bool := !(p > q || p < l.prev)

/-- What survives a process crash: entries up to `flushed`. -/
def durable (l : NLog) : NLog :=
  { l with entries := l.entries.take (l.flushed - l.prev), segs := l.segs }

end NLog
end Raft
