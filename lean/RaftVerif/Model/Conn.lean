/-
M8 — `Conn` / `Lock`: the identity handshake as a connection automaton, and the storage-directory lock
as an abstract file system with atomic `link`.  Core Lean only; every function is total.

Go code modelled (all in /repo):

* conn.go      `connPool.getConn` (pop a pooled connection WITHOUT re-verification, else
               `resolver.lookupID` → `dial` → `identityReq{src,cid,nid}` → require `identityResp.result == success`,
               otherwise close and return `IdentityError`), `connPool.doRPC`, `returnConn`, `closeAll`,
               `resolver.update`, `resolver.lookupID` (user Resolver first, address map as fallback)
* server.go    `server.serve` / `handleConn`: one loop iteration = read a type byte, decode, hand the request to
               the raft goroutine, write the response; after a non-success identity response it returns and the
               connection is closed.  `handleConn` does NOT require an identity request first.
* rpc.go       `replyRPC`, identity branch: `identityMismatch` unless `r.cid == req.cid && r.nid == req.nid`
* util.go      `lockDir` (TempFile, Link, Lstat/Lstat/SameFile, deferred Remove of the temp file), `unlockDir`
* storage.go   `SetIdentity` (the deferred `unlockDir(dir)` reports its own error only if the body returned nil)
* raft.go      `New` (`ErrIdentityNotSet`), `Serve` (`lockDir` … `defer unlockDir`)

Assumptions that are part of the model (recorded in the evidence):
* a connection is a pair of FIFO byte streams between the dialer and ONE listener process (TCP / net.Pipe);
  nothing is delivered on a connection that its dialer did not write on it;
* `(r.cid, r.nid)` of a process never change after `New` (they are assigned once, from storage);
* `os.Link` is atomic and fails if the target name exists; a new temp file never shares its inode with a file
  that still exists.
-/

namespace Raft
namespace Conn

/-- `(cid, nid)` -/
structure Identity where
  cid : Nat
  nid : Nat
deriving DecidableEq, Repr, Inhabited

abbrev Addr := Nat

/-- the four request kinds that reach `Raft.onRequest` -/
inductive Kind where
  | vote | append | installSnap | timeoutNow
deriving DecidableEq, Repr, Inhabited

/-- what a dialer writes on a connection -/
inductive Msg where
  /-- `identityReq{req{src}, cid, nid}` -/
  | identity (src : Nat) (want : Identity)
  /-- any other request; `src` is the `req.src` field -/
  | req (k : Kind) (src : Nat)
deriving DecidableEq, Repr

/-- what a listener writes back -/
inductive Resp where
  | idOk | idMismatch | reply (k : Kind)
deriving DecidableEq, Repr

/-- dialer-side state of one connection -/
inductive DState where
  /-- `dial` returned, nothing written yet -/
  | dialed
  /-- `identityReq` written, `identityResp` not yet read -/
  | awaitId
  /-- identity verified (checked out by a caller, or sitting in the pool); `pending` requests are written
  whose responses are not yet read (replication.go pipelines append requests) -/
  | verified (pending : Nat)
  | closed
deriving DecidableEq, Repr

/-- A listener process (`Raft.Serve` on some address).  `ident` is `(r.cid, r.nid)`. -/
structure Proc where
  ident : Identity
  addr : Addr
  alive : Bool
deriving Repr

/-- The dialing side of a node: `r.cid/r.nid`, `resolver.addrs`, the user `Resolver`, `connPool.max`. -/
structure Dialer where
  ident : Identity
  /-- `resolver.addrs` (newest binding first) -/
  addrs : List (Nat × Addr) := []
  /-- answers of the user supplied Resolver; no binding = `LookupID` returns an error -/
  deleg : List (Nat × Addr) := []
  max : Nat := 1
deriving Repr

structure Conn where
  /-- dialled by `connPool.getConn` (`true`) or by a peer that is not this library (`false`) -/
  lib : Bool
  /-- index of the dialer (library connections) -/
  dialer : Nat
  /-- identity of the dialing node -/
  src : Identity
  /-- `(pool.cid, pool.nid)`: whom the dialer believes to reach -/
  intended : Identity
  /-- the listener process the connection is physically attached to … -/
  lpid : Nat
  /-- … and that process' identity -/
  lident : Identity
  dstate : DState
  /-- the listener has not closed its end -/
  lopen : Bool := true
  /-- written by the dialer, not yet read by the listener (FIFO) -/
  inbox : List Msg := []
  /-- written by the listener, not yet read by the dialer (FIFO) -/
  outbox : List Resp := []
  /-- ghost: everything the dialer ever wrote on this connection -/
  wrote : List Msg := []
  /-- sits in `pool.conns` -/
  pooled : Bool := false
  /-- order of `returnConn` calls (the pool is LIFO) -/
  stamp : Nat := 0
deriving Repr

/-- A request that reached `Raft.onRequest` of a listener. -/
structure Processed where
  conn : Nat
  lib : Bool
  pid : Nat
  /-- identity of the listener that processed it -/
  listener : Identity
  /-- identity the dialer intended to reach -/
  intended : Identity
  /-- identity of the dialing node -/
  src : Identity
  kind : Kind
  /-- the `req.src` field as read from the wire -/
  srcField : Nat
deriving Repr, DecidableEq

structure World where
  /-- every listener process ever started; the index is the pid -/
  procs : List Proc := []
  dialers : List Dialer := []
  /-- every connection ever dialled; the index is the connection id -/
  conns : List Conn := []
  /-- requests that reached `onRequest`, oldest first -/
  processed : List Processed := []
  clock : Nat := 0
deriving Repr

/-! ### per-connection transitions -/

namespace Conn

/-- `c.doRPC(&identityReq{…})`, write half -/
def sendIdentity (c : Conn) : Conn :=
  if c.lib = true ∧ c.dstate = .dialed then
    { c with dstate := .awaitId,
             inbox := c.inbox ++ [Msg.identity c.src.nid c.intended],
             wrote := c.wrote ++ [Msg.identity c.src.nid c.intended] }
  else c

/-- `c.doRPC(&identityReq{…})`, read half, and `if err != nil || resp.result != success { Close }` -/
def recvIdentity (c : Conn) : Conn :=
  if c.lib = true ∧ c.dstate = .awaitId then
    match c.outbox with
    | r :: rest =>
      if r = Resp.idOk then { c with dstate := .verified 0, outbox := rest }
      else { c with dstate := .closed, outbox := rest }
    | [] => if c.lopen = true then c else { c with dstate := .closed }
  else c

/-- `getConn`: take the connection out of the pool -/
def pop (c : Conn) : Conn :=
  if c.pooled = true then { c with pooled := false } else c

/-- `c.writeReq(req)` on a checked-out, verified connection -/
def sendReq (c : Conn) (k : Kind) : Conn :=
  match c.dstate with
  | .verified n =>
    if c.lib = true ∧ c.pooled = false then
      { c with dstate := .verified (n + 1),
               inbox := c.inbox ++ [Msg.req k c.src.nid],
               wrote := c.wrote ++ [Msg.req k c.src.nid] }
    else c
  | _ => c

/-- `c.readResp(resp)` by whoever holds the connection; an error (peer closed) closes it (`connPool.doRPC`,
`replication.runLoop`) -/
def recvResp (c : Conn) : Conn :=
  if c.lib = true ∧ c.pooled = false then
    match c.dstate with
    | .verified (n + 1) =>
      match c.outbox with
      | _ :: rest => { c with dstate := .verified n, outbox := rest }
      | [] => if c.lopen = true then c else { c with dstate := .closed }
    | _ => c
  else c

/-- `returnConn`: `room` says `len(pool.conns) < pool.max` -/
def returnConn (c : Conn) (room : Bool) (now : Nat) : Conn :=
  match c.dstate with
  | .verified _ =>
    if c.lib = true ∧ c.pooled = false then
      if room = true then { c with pooled := true, stamp := now } else { c with dstate := .closed }
    else c
  | _ => c

/-- the dialer closes its end (error paths, deadline, `closeAll`) -/
def dialerClose (c : Conn) : Conn := { c with dstate := .closed, pooled := false }

/-- One iteration of `handleConn`'s loop together with `replyRPC`: the state of the connection afterwards. -/
def afterRead (c : Conn) : Conn :=
  if c.lopen = true then
    match c.inbox with
    | [] => c
    | Msg.identity _ want :: rest =>
      if want = c.lident then { c with inbox := rest, outbox := c.outbox ++ [Resp.idOk] }
      else { c with inbox := rest, outbox := c.outbox ++ [Resp.idMismatch], lopen := false }
    | Msg.req k _ :: rest => { c with inbox := rest, outbox := c.outbox ++ [Resp.reply k] }
  else c

/-- …and what reaches `onRequest` in that iteration (nothing for an identity request). -/
def readRecords (c : Conn) (i : Nat) : List Processed :=
  if c.lopen = true then
    match c.inbox with
    | Msg.req k s :: _ =>
      [{ conn := i, lib := c.lib, pid := c.lpid, listener := c.lident, intended := c.intended,
         src := c.src, kind := k, srcField := s }]
    | _ => []
  else []

/-- `handleConn`'s read fails because the dialer closed and nothing is left to read -/
def listenerEOF (c : Conn) : Conn :=
  if c.dstate = .closed ∧ c.inbox = [] then { c with lopen := false } else c

/-- the listener closes its end for any reason (shutdown, I/O error) -/
def listenerClose (c : Conn) : Conn := { c with lopen := false }

/-- a peer that is not this library writes whatever it likes -/
def rawWrite (c : Conn) (m : Msg) : Conn :=
  if c.lib = false ∧ c.dstate ≠ .closed then
    { c with inbox := c.inbox ++ [m], wrote := c.wrote ++ [m] }
  else c

def rawRead (c : Conn) : Conn :=
  if c.lib = false then { c with outbox := c.outbox.tail } else c

end Conn

/-! ### the world -/

def lookup (l : List (Nat × Addr)) (k : Nat) : Option Addr :=
  match l.find? (fun p => p.1 = k) with
  | some p => some p.2
  | none => none

/-- `resolver.lookupID` -/
def Dialer.resolve (d : Dialer) (nid : Nat) : Option Addr :=
  match lookup d.deleg nid with
  | some a => some a
  | none => lookup d.addrs nid

/-- pid of the process listening at `a` -/
def listenerAt (procs : List Proc) (a : Addr) : Option Nat :=
  procs.findIdx? (fun p => p.alive = true ∧ p.addr = a)

def World.onConn (w : World) (i : Nat) (f : Conn → Conn) : World :=
  match w.conns[i]? with
  | some c => { w with conns := w.conns.set i (f c) }
  | none => w

def World.onDialer (w : World) (d : Nat) (f : Dialer → Dialer) : World :=
  match w.dialers[d]? with
  | some dl => { w with dialers := w.dialers.set d (f dl) }
  | none => w

/-- number of connections in the pool `(d, dest)` -/
def World.poolCount (w : World) (d dest : Nat) : Nat :=
  (w.conns.filter (fun c => c.pooled = true ∧ c.dialer = d ∧ c.intended.nid = dest)).length

def World.dialerMax (w : World) (d : Nat) : Nat :=
  match w.dialers[d]? with
  | some dl => dl.max
  | none => 0

/-- stop the process at address `a`: its connections are closed (`server.serve` after `shutdown`) -/
def World.stopAt (w : World) (a : Addr) : World :=
  match listenerAt w.procs a with
  | some pid =>
    { w with procs := w.procs.mapIdx (fun i p => if i = pid then { p with alive := false } else p),
             conns := w.conns.map (fun c => if c.lpid = pid then c.listenerClose else c) }
  | none => w

inductive Ev where
  /-- one binding of `resolver.update(config)` — any node id, any address -/
  | addrUpdate (d nid : Nat) (a : Addr)
  /-- the user Resolver changes its answer for `nid` (`none`: it returns an error from now on) -/
  | resolverSet (d nid : Nat) (a : Option Addr)
  /-- `lookupID` + `dial` for the pool `(d, dest)` -/
  | dial (d dest : Nat)
  | sendIdentity (c : Nat)
  | recvIdentity (c : Nat)
  | pop (c : Nat)
  | sendReq (c : Nat) (k : Kind)
  | recvResp (c : Nat)
  | returnConn (c : Nat)
  | dialerClose (c : Nat)
  | listenerRead (c : Nat)
  | listenerEOF (c : Nat)
  | listenerClose (c : Nat)
  /-- a node with identity `id` starts serving at `a`; whatever served there before is stopped -/
  | start (a : Addr) (id : Identity)
  | stop (a : Addr)
  /-- a peer that is not this library connects to `a` … -/
  | rawDial (a : Addr)
  /-- … and writes anything -/
  | rawWrite (c : Nat) (m : Msg)
  | rawRead (c : Nat)
deriving Repr

def setBinding (l : List (Nat × Addr)) (nid : Nat) (a : Option Addr) : List (Nat × Addr) :=
  match a with
  | some a => (nid, a) :: l.filter (fun p => p.1 ≠ nid)
  | none => l.filter (fun p => p.1 ≠ nid)

def World.dial (w : World) (d dest : Nat) : World :=
  match w.dialers[d]? with
  | none => w
  | some dl =>
    match dl.resolve dest with
    | none => w
    | some a =>
      match listenerAt w.procs a with
      | none => w
      | some pid =>
        match w.procs[pid]? with
        | none => w
        | some p =>
          { w with conns := w.conns ++
              [{ lib := true, dialer := d, src := dl.ident, intended := ⟨dl.ident.cid, dest⟩,
                 lpid := pid, lident := p.ident, dstate := .dialed }] }

def World.rawDial (w : World) (a : Addr) : World :=
  match listenerAt w.procs a with
  | none => w
  | some pid =>
    match w.procs[pid]? with
    | none => w
    | some p =>
      { w with conns := w.conns ++
          [{ lib := false, dialer := 0, src := ⟨0, 0⟩, intended := ⟨0, 0⟩,
             lpid := pid, lident := p.ident, dstate := .verified 0 }] }

def World.listenerRead (w : World) (i : Nat) : World :=
  match w.conns[i]? with
  | some c => { w with conns := w.conns.set i c.afterRead, processed := w.processed ++ c.readRecords i }
  | none => w

def World.returnConn (w : World) (i : Nat) : World :=
  match w.conns[i]? with
  | some c =>
    { w with conns := w.conns.set i
               (c.returnConn (decide (w.poolCount c.dialer c.intended.nid < w.dialerMax c.dialer)) w.clock),
             clock := w.clock + 1 }
  | none => w

/-- One event.  An event that is not enabled leaves the world unchanged. -/
def step (w : World) : Ev → World
  | .addrUpdate d nid a => w.onDialer d (fun dl => { dl with addrs := setBinding dl.addrs nid (some a) })
  | .resolverSet d nid a => w.onDialer d (fun dl => { dl with deleg := setBinding dl.deleg nid a })
  | .dial d dest => w.dial d dest
  | .sendIdentity c => w.onConn c Conn.sendIdentity
  | .recvIdentity c => w.onConn c Conn.recvIdentity
  | .pop c => w.onConn c Conn.pop
  | .sendReq c k => w.onConn c (fun x => x.sendReq k)
  | .recvResp c => w.onConn c Conn.recvResp
  | .returnConn c => w.returnConn c
  | .dialerClose c => w.onConn c Conn.dialerClose
  | .listenerRead c => w.listenerRead c
  | .listenerEOF c => w.onConn c Conn.listenerEOF
  | .listenerClose c => w.onConn c Conn.listenerClose
  | .start a id =>
    let w1 := w.stopAt a
    { w1 with procs := w1.procs ++ [{ ident := id, addr := a, alive := true }] }
  | .stop a => w.stopAt a
  | .rawDial a => w.rawDial a
  | .rawWrite c m => w.onConn c (fun x => x.rawWrite m)
  | .rawRead c => w.onConn c Conn.rawRead

/-- trace semantics -/
def run (w : World) (evs : List Ev) : World := evs.foldl step w

/-! ### the compound operations of conn.go as event sequences (what `conndiff` compares) -/

inductive Err where
  | ok | dialErr | identityErr | ioErr | noConn
deriving DecidableEq, Repr

/-- the pooled connection `getConn` would pop for `(d, dest)`: the one returned last -/
def popChoice (conns : List Conn) (d dest : Nat) : Option Nat :=
  let rec go (l : List Conn) (i : Nat) (best : Option (Nat × Nat)) : Option (Nat × Nat) :=
    match l with
    | [] => best
    | c :: rest =>
      if c.pooled = true ∧ c.dialer = d ∧ c.intended.nid = dest then
        match best with
        | some b => if c.stamp ≥ b.2 then go rest (i + 1) (some (i, c.stamp)) else go rest (i + 1) best
        | none => go rest (i + 1) (some (i, c.stamp))
      else go rest (i + 1) best
  match go conns 0 none with
  | some b => some b.1
  | none => none

def dstateOf (w : World) (i : Nat) : DState :=
  match w.conns[i]? with
  | some c => c.dstate
  | none => .closed

/-- events of `connPool.getConn` when the listener answers at once -/
def getConnEvs (w : World) (d dest : Nat) : List Ev :=
  match popChoice w.conns d dest with
  | some c => [.pop c]
  | none =>
    let c := w.conns.length
    [.dial d dest, .sendIdentity c, .listenerRead c, .recvIdentity c, .listenerEOF c]

structure GetResult where
  world : World
  conn : Option Nat
  err : Err

def getConn (w : World) (d dest : Nat) : GetResult :=
  let w' := run w (getConnEvs w d dest)
  match popChoice w.conns d dest with
  | some c => { world := w', conn := some c, err := .ok }
  | none =>
    if w'.conns.length = w.conns.length then { world := w', conn := none, err := .dialErr }
    else if dstateOf w' w.conns.length = .verified 0 then { world := w', conn := some w.conns.length, err := .ok }
    else { world := w', conn := none, err := .identityErr }

/-- events of `c.doRPC(req, resp)` + the `Close` on error of `connPool.doRPC` -/
def useEvs (c : Nat) (k : Kind) : List Ev :=
  [.sendReq c k, .listenerRead c, .recvResp c, .listenerEOF c]

structure OpResult where
  world : World
  err : Err

/-- the caller holds connection `c` (got it from `getConn`, has not returned it) -/
def isHeld (w : World) (i : Nat) : Bool :=
  match w.conns[i]? with
  | some c => decide (c.lib = true ∧ c.dstate = .verified 0 ∧ c.pooled = false)
  | none => false

def useConn (w : World) (c : Nat) (k : Kind) : OpResult :=
  if isHeld w c = true then
    let w' := run w (useEvs c k)
    { world := w', err := if dstateOf w' c = .verified 0 then .ok else .ioErr }
  else { world := w, err := .noConn }

def putEvs (c : Nat) : List Ev := [.returnConn c, .listenerEOF c]

def putConn (w : World) (c : Nat) : World := run w (putEvs c)

/-- `connPool.doRPC` -/
def doRPC (w : World) (d dest : Nat) (k : Kind) : OpResult :=
  let g := getConn w d dest
  match g.conn with
  | none => { world := g.world, err := g.err }
  | some c =>
    let u := useConn g.world c k
    if u.err = .ok then { world := putConn u.world c, err := .ok } else u

def pooledIds (conns : List Conn) (d dest : Nat) : List Nat :=
  (List.range conns.length).filter (fun i =>
    match conns[i]? with
    | some c => c.pooled = true ∧ c.dialer = d ∧ c.intended.nid = dest
    | none => false)

/-- `connPool.closeAll` -/
def closeAllEvs (w : World) (d dest : Nat) : List Ev :=
  (pooledIds w.conns d dest).flatMap (fun i => [Ev.dialerClose i, Ev.listenerEOF i])

def closeAll (w : World) (d dest : Nat) : World := run w (closeAllEvs w d dest)

/-- a foreign peer sends one message and reads the answer -/
def rawSendEvs (c : Nat) (m : Msg) : List Ev := [.rawWrite c m, .listenerRead c]

end Conn

/-! ## The directory lock -/

namespace Lock

inductive Res where
  | ok | lockExists | ioErr | cidZero | nidZero | alreadySet | identityNotSet
deriving DecidableEq, Repr

/-- why the process takes the lock -/
inductive Job where
  | serve | setId
deriving DecidableEq, Repr

/-- position of a process inside `lockDir` / its critical section; `ino` is the inode of its temp file -/
inductive PC where
  | idle
  /-- `ioutil.TempFile` done -/
  | created (ino : Nat)
  /-- `os.Link(temp, lock)` succeeded -/
  | linked (ino : Nat)
  /-- `os.Link` failed with EEXIST -/
  | linkFailed (ino : Nat)
  /-- `Lstat`, `Lstat`, `SameFile` done with result `r`; the deferred `Remove(temp)` is still to run -/
  | checked (ino : Nat) (r : Res)
  /-- `lockDir` returned nil; `unlockDir` not yet called -/
  | holding (ino : Nat)
deriving DecidableEq, Repr

structure Proc where
  pc : PC := .idle
  job : Job := .serve
  /-- `SetIdentity`: the value `openValue` returned -/
  val : Option (Nat × Nat) := none
  /-- result of the last `lockDir` call -/
  last : Option Res := none
deriving Repr

/-- The storage directory. -/
structure State where
  /-- the name `lock`: absent, or a link to the inode -/
  lock : Option Nat := none
  /-- temp files present -/
  temps : List Nat := []
  /-- inode allocator -/
  next : Nat := 0
  /-- the `.id` value file; `(0,0)` = `0-0.id` or no file yet -/
  stored : Nat × Nat := (0, 0)
  procs : Nat → Proc := fun _ => {}

def State.setProc (s : State) (p : Nat) (pr : Proc) : State :=
  { s with procs := fun x => if x = p then pr else s.procs x }

inductive Ev where
  /-- `ioutil.TempFile(dir, "lock*.tmp")` (+ writing the pid) -/
  | create (p : Nat) (job : Job)
  /-- `os.Link(temp, dir/lock)` -/
  | link (p : Nat)
  /-- `Lstat(temp)`, `Lstat(lock)`, `SameFile` -/
  | stat (p : Nat)
  /-- deferred `Remove(temp)`; `lockDir` returns -/
  | cleanup (p : Nat)
  /-- `unlockDir` by the holder (`defer` in `Serve` and in `SetIdentity`) -/
  | unlock (p : Nat)
  /-- `SetIdentity`: `openValue(dir, ".id")` -/
  | idRead (p : Nat)
  /-- `SetIdentity`: compare and `val.set(cid, nid)` -/
  | idWrite (p : Nat) (cid nid : Nat)
deriving Repr

def step (s : State) : Ev → State
  | .create p job =>
    match (s.procs p).pc with
    | .idle =>
      { s.setProc p { (s.procs p) with pc := .created s.next, job := job, val := none } with
        temps := s.next :: s.temps, next := s.next + 1 }
    | _ => s
  | .link p =>
    match (s.procs p).pc with
    | .created i =>
      match s.lock with
      | none => { s.setProc p { (s.procs p) with pc := .linked i } with lock := some i }
      | some _ => s.setProc p { (s.procs p) with pc := .linkFailed i }
    | _ => s
  | .stat p =>
    match (s.procs p).pc with
    | .linked i =>
      match s.lock with
      | none => s.setProc p { (s.procs p) with pc := .checked i .ioErr }
      | some j =>
        if j = i then s.setProc p { (s.procs p) with pc := .checked i .ok }
        else s.setProc p { (s.procs p) with pc := .checked i .lockExists }
    | _ => s
  | .cleanup p =>
    match (s.procs p).pc with
    | .linkFailed i =>
      { s.setProc p { (s.procs p) with pc := .idle, last := some .lockExists } with
        temps := s.temps.filter (· ≠ i) }
    | .checked i r =>
      { s.setProc p { (s.procs p) with pc := if r = .ok then .holding i else .idle, last := some r } with
        temps := s.temps.filter (· ≠ i) }
    | _ => s
  | .unlock p =>
    match (s.procs p).pc with
    | .holding _ => { s.setProc p { (s.procs p) with pc := .idle, val := none } with lock := none }
    | _ => s
  | .idRead p =>
    match (s.procs p).pc with
    | .holding _ => s.setProc p { (s.procs p) with val := some s.stored }
    | _ => s
  | .idWrite p cid nid =>
    match (s.procs p).pc with
    | .holding _ =>
      match (s.procs p).val with
      | some v =>
        if cid = 0 ∨ nid = 0 then s                      -- SetIdentity returned before lockDir
        else if cid = v.1 ∧ nid = v.2 then s             -- return nil
        else if v.1 ≠ 0 ∧ v.2 ≠ 0 then s                 -- return ErrIdentityAlreadySet
        else if s.stored = v then { s with stored := (cid, nid) }   -- os.Rename(cur, new)
        else s                                            -- Rename fails: no file with the name read
      | none => s
    | _ => s

def run (s : State) (evs : List Ev) : State := evs.foldl step s

/-- `unlockDir` called by somebody who does not hold the lock: NOT done anywhere in the library
(both call sites are `defer`s placed after a successful `lockDir`); modelled to show what it would break. -/
def rogueUnlock (s : State) : State := { s with lock := none }

def isHolding : PC → Bool
  | .holding _ => true
  | _ => false

/-- `lockDir` run without interruption -/
def lockDirEvs (p : Nat) (job : Job) : List Ev := [.create p job, .link p, .stat p, .cleanup p]

/-- What the body of `SetIdentity` returns once it holds the lock (the rename of an uninterrupted call
cannot fail: the file read is the file renamed). -/
def bodyResult (stored : Nat × Nat) (cid nid : Nat) : Res :=
  if cid = stored.1 ∧ nid = stored.2 then .ok
  else if stored.1 ≠ 0 ∧ stored.2 ≠ 0 then .alreadySet
  else .ok

structure SetIdResult where
  state : State
  /-- what the caller gets -/
  returned : Res

/-- `SetIdentity(dir, cid, nid)` by process `p`, not interleaved with anything. -/
def setIdentity (s : State) (p cid nid : Nat) : SetIdResult :=
  if cid = 0 then { state := s, returned := .cidZero }
  else if nid = 0 then { state := s, returned := .nidZero }
  else
    let s1 := run s (lockDirEvs p .setId)
    if isHolding (s1.procs p).pc = true then
      -- deferred: `if e := unlockDir(storageDir); err == nil { err = e }` — the body's error is kept,
      -- and RemoveAll of the lock name gives nil
      { state := run s1 [.idRead p, .idWrite p cid nid, .unlock p], returned := bodyResult s1.stored cid nid }
    else
      { state := s1, returned := ((s1.procs p).last).getD .ioErr }

/-- `New`: `openStorage` reads the identity (without taking the lock); zero ids are refused. -/
def newNode (s : State) : Res × Conn.Identity :=
  if s.stored.1 = 0 ∨ s.stored.2 = 0 then (.identityNotSet, ⟨0, 0⟩) else (.ok, ⟨s.stored.1, s.stored.2⟩)

/-- `Serve` up to the point where it serves: `lockDir` -/
def serveStart (s : State) (p : Nat) : State := run s (lockDirEvs p .serve)

/-- `Serve` returns: deferred `unlockDir` -/
def serveEnd (s : State) (p : Nat) : State := step s (.unlock p)

end Lock
end Raft
