/-
M2 — the segmented log of package `log` (log/log.go, log/segment.go, log/util.go, mmap/).
Core Lean only.

Part 1  `Seg`, `SegLog`  : the in-memory descriptor chain the Go code works on
Part 2  `AbsLog`, `abs`  : the abstract sequence the log is supposed to be
Part 3  `FileSt`, `Disk`, `Step`, `script`, images, `reopen` : the file view with micro-steps
                           and the two crash semantics (process kill / power loss)

Representation choices (recorded because the theorems are about exactly these):

* A segment list is kept NEWEST FIRST (`last :: older`), because nearly every loop of the Go code
  starts at `l.last` and walks `s.prev`.  `l.first` is the last element of that list.
* An entry is its byte string.  `n = entries.length`, `size = Σ lengths`; the offset slot `k+1`
  (end of entry `k`) is `dataSize (entries.take k)` and is not stored separately.
* Indices and sizes are `Nat`; `available` is an `Int` because it does become negative
  (down to -8) in the Go code.  Absence of 64-bit overflow is assumed.
* A file is abstracted to `(cap, header, units)`: `units[k]` is "entry k+1 written" = its data bytes
  together with its end-offset slot `k+2`.  A reopen reads the header `h` and then exactly the units
  `1..h`; if fewer than `h` units are valid the model answers `Err.corrupt` ("the real code would
  expose bytes nobody appended") — C14 proves that this never happens.
* File-system assumptions (C14): `rename`, `remove` of a directory entry and `fsync` are durable
  when the call returns (in particular the directory itself needs no fsync), `rename` is atomic;
  an 8-byte header store is not torn; `msync(MS_SYNC)` makes the whole mapping durable.
* The directory model holds `*.log` files only; `<n>.log.tmp` files (createSegment's scratch file,
  possibly left behind by a crash) are invisible to `Open` because `segments()` globs `*.log`.
-/
namespace Raft.SL

abbrev Bytes := List UInt8

/-- Sites of the documented panics. -/
inductive PanicSite
  | gtLastIndex     -- "log: %d>lastIndex(%d)" in ViewAt / segment / GetN
  | lePrevIndex     -- "i<=prevIndex" in segment.get
  | sliceBounds     -- slice bounds out of range in segment.get (unreachable under `Inv`)
  | nilDeref        -- nil segment dereference (unreachable under `Inv`)
  deriving DecidableEq, Repr, Inhabited

inductive Err
  | notFound                 -- ErrNotFound
  | exceedsSegmentSize       -- ErrExceedsSegmentSize
  | panic (site : PanicSite)
  | openFail                 -- log.Open returns an error (mmap of a zero length file: EINVAL)
  | corrupt                  -- reopen would read units that were never (durably) written
  deriving DecidableEq, Repr, Inhabited

def dataSize : List Bytes → Nat
  | [] => 0
  | b :: bs => b.length + dataSize bs

/-! ## Part 1 — in-memory model -/

/-- `type segment struct`: `n`/`size` are derived from `entries`; `cap = len(file.Data)`. -/
structure Seg where
  prev : Nat
  entries : List Bytes
  synced : Int
  cap : Nat
  deriving DecidableEq, Repr, Inhabited

namespace Seg

def n (s : Seg) : Nat := s.entries.length
def size (s : Seg) : Nat := dataSize s.entries
def lastIndex (s : Seg) : Nat := s.prev + s.n

/-- `at(i) = len(Data) - i*8 - 8`. -/
def slotAt (s : Seg) (i : Nat) : Int := (s.cap : Int) - (i : Int) * 8 - 8

/-- `available() = at(n+2) - size` (may be negative). -/
def available (s : Seg) : Int := s.slotAt (s.n + 2) - (s.size : Int)

def dirty (s : Seg) : Bool := decide (s.synced < (s.n : Int))

/-- `append`: data at `[size, size+len b)`, slot `n+2 := size+len b`; the header is NOT written. -/
def append (s : Seg) (b : Bytes) : Seg := { s with entries := s.entries ++ [b] }

/-- `sync`: msync; header := n; msync; synced := n — only if dirty. -/
def sync (s : Seg) : Seg := if s.dirty then { s with synced := (s.n : Int) } else s

/-- `removeGTE(i)`: `n := i - prevIndex - 1`; if `n < s.n` lower header, `synced := -1`; then `sync`. -/
def removeGTE (s : Seg) (i : Nat) : Seg :=
  if i - s.prev - 1 < s.n then
    ({ s with entries := s.entries.take (i - s.prev - 1), synced := -1 } : Seg).sync
  else s.sync

/-- `get(i, k)`: bytes of entries `i .. i+k-1` of this segment, i.e. `Data[offset(i'):offset(i'+k)]`. -/
def get (s : Seg) (i k : Nat) : Except Err Bytes :=
  if i > s.prev then
    if (i - s.prev) + k ≤ s.n + 1 then
      .ok ((s.entries.drop (i - s.prev - 1)).take k).flatten
    else .error (.panic .sliceBounds)
  else .error (.panic .lePrevIndex)

/-- A segment file just created by `createSegment` and opened: header 0, slot 1 = 0. -/
def fresh (prev cap : Nat) : Seg := { prev := prev, entries := [], synced := 0, cap := cap }

end Seg

/-- `type Log struct` (not a view).  `segs = last :: older`, newest first. -/
structure SegLog where
  last : Seg
  older : List Seg
  segmentSize : Nat
  deriving DecidableEq, Repr, Inhabited

/-- Last element of a list or a default. -/
def lastD : List Seg → Seg → Seg
  | [], d => d
  | s :: rest, _ => lastD rest s

namespace SegLog

def segs (l : SegLog) : List Seg := l.last :: l.older
def first (l : SegLog) : Seg := lastD l.older l.last
def prevIndex (l : SegLog) : Nat := l.first.prev
def lastIndex (l : SegLog) : Nat := l.last.lastIndex
def count (l : SegLog) : Nat := l.lastIndex - l.prevIndex
def contains (l : SegLog) (i : Nat) : Bool := decide (i > l.prevIndex ∧ i ≤ l.lastIndex)

/-- `Open` on an empty directory. -/
def empty (segmentSize : Nat) : SegLog :=
  { last := Seg.fresh 0 segmentSize, older := [], segmentSize := segmentSize }

end SegLog

/-! ### Reading (shared by the log and its views) -/

/-- The loop of `Log.segment`: walk from the newest segment, return the first one with
`i > s.prevIndex`, together with the segments after it (oldest of them first) which `GetN` follows
through `s.next`.  Running off the list is `s == l.first ⇒ return nil`. -/
def findSeg (i : Nat) : List Seg → List Seg → Option (Seg × List Seg)
  | [], _ => none
  | s :: older, acc => if i > s.prev then some (s, acc) else findSeg i older (s :: acc)

/-- `Log.segment(i)` with the bounds `p = PrevIndex()`, `l = LastIndex()`. -/
def segmentOf (ss : List Seg) (p l i : Nat) : Except Err (Option (Seg × List Seg)) :=
  if i > l then .error (.panic .gtLastIndex)
  else if i ≤ p then .ok none
  else .ok (findSeg i ss [])

def getIn (ss : List Seg) (p l i : Nat) : Except Err Bytes :=
  match segmentOf ss p l i with
  | .error e => .error e
  | .ok none => .error .notFound
  | .ok (some sa) => sa.1.get i 1

/-- The `for n > 0` loop of `GetN`; the second argument is the `s.next` chain up to `l.last`. -/
def getNLoop : Seg → List Seg → Nat → Nat → Except Err (List Bytes)
  | s, [], i, n =>
      match s.get i n with
      | .error e => .error e
      | .ok b => .ok [b]
  | s, nx :: rest, i, n =>
      match s.get i (min (s.lastIndex - (i - 1)) n) with
      | .error e => .error e
      | .ok b =>
        if n - min (s.lastIndex - (i - 1)) n > 0 then
          match getNLoop nx rest (i + min (s.lastIndex - (i - 1)) n) (n - min (s.lastIndex - (i - 1)) n) with
          | .error e => .error e
          | .ok r => .ok (b :: r)
        else .ok [b]

/-- `GetN(i, n)`.  `i+(n-1)` is computed in uint64: for `n = 0` it is `i-1`, wrapping for `i = 0`. -/
def getNIn (ss : List Seg) (p l i n : Nat) : Except Err (List Bytes) :=
  if (n = 0 ∧ (i = 0 ∨ i - 1 > l)) ∨ (n > 0 ∧ i + (n - 1) > l) then .error (.panic .gtLastIndex)
  else
    match segmentOf ss p l i with
    | .error e => .error e
    | .ok none => .error .notFound
    | .ok (some sa) => if n = 0 then .ok [] else getNLoop sa.1 sa.2 i n

/-- Concatenation of the chunks `GetN` returns (one per segment). -/
def flatChunks : Except Err (List Bytes) → Except Err Bytes
  | .ok chunks => .ok chunks.flatten
  | .error e => .error e

namespace SegLog

def get (l : SegLog) (i : Nat) : Except Err Bytes := getIn l.segs l.prevIndex l.lastIndex i
def getN (l : SegLog) (i n : Nat) : Except Err (List Bytes) := getNIn l.segs l.prevIndex l.lastIndex i n

end SegLog

/-! ### Views -/

/-- A view made by `ViewAt` on the (non-view) log: fixed bounds and the two segment pointers,
identified by `prevIndex` (valid as long as no segment is removed, which is the documented
lifetime of a view).  `lastPrev = none` is the Go view whose `last` pointer is nil
(`ViewAt(p, p)` with `p = PrevIndex`). -/
structure View where
  p : Nat
  l : Nat
  firstPrev : Nat
  lastPrev : Option Nat
  deriving DecidableEq, Repr, Inhabited

/-- `for { if prevIndex >= s.prevIndex {break}; s = s.prev }` of `ViewAt`. -/
def walkFirst (p : Nat) : List Seg → Option Nat
  | [] => none
  | s :: older => if p ≥ s.prev then some s.prev else walkFirst p older

def SegLog.viewAt (lg : SegLog) (p l : Nat) : Except Err (Option View) :=
  if l > lg.lastIndex then .error (.panic .gtLastIndex)
  else if p > l ∨ p < lg.prevIndex then .ok none
  else
    match walkFirst p lg.segs with
    | none => .error (.panic .nilDeref)
    | some fp =>
      match segmentOf lg.segs lg.prevIndex lg.lastIndex l with
      | .error e => .error e
      | .ok sa => .ok (some { p := p, l := l, firstPrev := fp, lastPrev := sa.map (fun x => x.1.prev) })

/-- The segments a view sees in the CURRENT state `ss` of the log it was taken from. -/
def View.segs (v : View) (ss : List Seg) : List Seg :=
  match v.lastPrev with
  | none => []
  | some lp => (ss.dropWhile (fun s => decide (s.prev > lp))).takeWhile (fun s => decide (s.prev ≥ v.firstPrev))

def View.get (v : View) (cur : SegLog) (i : Nat) : Except Err Bytes := getIn (v.segs cur.segs) v.p v.l i
def View.getN (v : View) (cur : SegLog) (i n : Nat) : Except Err (List Bytes) :=
  getNIn (v.segs cur.segs) v.p v.l i n
def View.count (v : View) : Nat := v.l - v.p
def View.contains (v : View) (i : Nat) : Bool := decide (i > v.p ∧ i ≤ v.l)

/-! ### Writing -/

/-- `CommitN`'s loop on the segments older than the one just visited. -/
def commitSegs (n : Nat) : List Seg → List Seg
  | [] => []
  | s :: older =>
    if !s.dirty then s :: older
    else if s.prev ≥ n then s :: commitSegs n older
    else s.sync :: commitSegs n older

/-- The loop of `RemoveLTE` seen from the newest-first list of NON-last segments: a segment is
dropped iff everything older was dropped and `n > 0 ∧ lastIndex ≤ i`. -/
def dropOld (i : Nat) : List Seg → List Seg
  | [] => []
  | s :: older =>
    match dropOld i older with
    | [] => if s.n > 0 ∧ s.lastIndex ≤ i then [] else [s]
    | o :: os => s :: o :: os

/-- The loop of `CanLTE` on the non-last segments: `some p` = stopped at a segment with that
prevIndex, `none` = walked past all of them. -/
def canOld (i : Nat) : List Seg → Option Nat
  | [] => none
  | s :: older =>
    match canOld i older with
    | some p => some p
    | none => if s.n > 0 ∧ s.lastIndex ≤ i then none else some s.prev

/-- The loop of `RemoveGTE` after the `Commit`: `s` is `l.last`, `older` what is behind it. -/
def rgte (i ss : Nat) : Seg → List Seg → Seg × List Seg
  | s, [] =>
    if i ≤ s.prev + 1 then
      if i = s.prev + 1 then (s.removeGTE (s.prev + 1), [])
      else (Seg.fresh (i - 1) ss, [])
    else (s.removeGTE (min i (s.lastIndex + 1)), [])
  | s, o :: os =>
    if i ≤ s.prev + 1 then rgte i ss o os
    else (s.removeGTE (min i (s.lastIndex + 1)), o :: os)

namespace SegLog

def commitN (l : SegLog) (n : Nat) : SegLog :=
  if !l.last.dirty then l
  else if l.last.prev ≥ n then { l with older := commitSegs n l.older }
  else { l with last := l.last.sync, older := commitSegs n l.older }

def commit (l : SegLog) : SegLog := l.commitN l.lastIndex

/-- `Append`.  The new segment file is assumed not to exist yet (true when the directory holds
exactly the chain, see `Rep`), so its size is the (possibly just enlarged) option value. -/
def append (l : SegLog) (b : Bytes) : Except Err SegLog :=
  if l.last.available < (b.length : Int) then
    if l.last.n = 0 then .error .exceedsSegmentSize
    else
      let ss := if b.length + 24 > l.segmentSize then b.length + 24 else l.segmentSize
      let c := l.commit
      .ok { last := (Seg.fresh c.lastIndex ss).append b, older := c.last :: c.older, segmentSize := ss }
  else .ok { l with last := l.last.append b }

def canLTE (l : SegLog) (i : Nat) : Nat := (canOld i l.older).getD l.last.prev

def removeLTE (l : SegLog) (i : Nat) : SegLog :=
  let c := l.commit
  { c with older := dropOld i c.older }

def removeGTE (l : SegLog) (i : Nat) : SegLog :=
  let c := l.commit
  { c with last := (rgte i c.segmentSize c.last c.older).1, older := (rgte i c.segmentSize c.last c.older).2 }

def reset (l : SegLog) (j : Nat) : SegLog :=
  { l with last := Seg.fresh j l.segmentSize, older := [] }

/-- `Close` followed by `Open(dir, Options{SegmentSize: ss})` on an intact directory. -/
def closeOpen (l : SegLog) (ss : Nat) : SegLog := { l.commit with segmentSize := ss }

end SegLog

inductive Op
  | append (b : Bytes)
  | commitN (n : Nat)
  | commit
  | removeLTE (i : Nat)
  | removeGTE (i : Nat)
  | reset (j : Nat)
  | closeOpen (ss : Nat)
  deriving Repr, Inhabited

/-- `Options.validate`: the only op with a precondition is a reopen with a too small SegmentSize. -/
def Op.valid : Op → Prop
  | .closeOpen ss => 1024 ≤ ss
  | _ => True

def SegLog.apply (l : SegLog) : Op → Except Err SegLog
  | .append b => l.append b
  | .commitN n => .ok (l.commitN n)
  | .commit => .ok l.commit
  | .removeLTE i => .ok (l.removeLTE i)
  | .removeGTE i => .ok (l.removeGTE i)
  | .reset j => .ok (l.reset j)
  | .closeOpen ss => .ok (l.closeOpen ss)

/-- Run a program; an op that returns an error (only `append`: ErrExceedsSegmentSize) leaves the log
unchanged.  `closeOpen ss` is only meaningful for `1024 ≤ ss` (`Options.validate`); the theorems
about programs carry that as the hypothesis `Op.valid`. -/
def SegLog.run (l : SegLog) : List Op → SegLog
  | [] => l
  | op :: ops =>
    match l.apply op with
    | .ok l' => l'.run ops
    | .error _ => l.run ops

/-! ## Part 2 — abstract specification -/

/-- The abstract log: entries `prev+1 .. prev+entries.length`. -/
structure AbsLog where
  prev : Nat
  entries : List Bytes
  deriving DecidableEq, Repr, Inhabited

/-- All entries of a newest-first segment list, oldest entry first. -/
def absEntries : List Seg → List Bytes
  | [] => []
  | s :: older => absEntries older ++ s.entries

def abs (l : SegLog) : AbsLog := { prev := l.prevIndex, entries := absEntries l.segs }

namespace AbsLog

def lastIndex (a : AbsLog) : Nat := a.prev + a.entries.length
def count (a : AbsLog) : Nat := a.entries.length
def contains (a : AbsLog) (i : Nat) : Bool := decide (i > a.prev ∧ i ≤ a.lastIndex)

/-- Entry with index `i` (total lookup used in the crash specifications). -/
def get? (a : AbsLog) (i : Nat) : Option Bytes :=
  if i > a.prev then a.entries[i - a.prev - 1]? else none

def get (a : AbsLog) (i : Nat) : Except Err Bytes :=
  if i > a.lastIndex then .error (.panic .gtLastIndex)
  else if i ≤ a.prev then .error .notFound
  else match a.entries[i - a.prev - 1]? with
    | some b => .ok b
    | none => .error (.panic .sliceBounds)

/-- The bytes `GetN(i,n)` must deliver after concatenation. -/
def getN (a : AbsLog) (i n : Nat) : Except Err Bytes :=
  if (n = 0 ∧ (i = 0 ∨ i - 1 > a.lastIndex)) ∨ (n > 0 ∧ i + (n - 1) > a.lastIndex) then
    .error (.panic .gtLastIndex)
  else if i > a.lastIndex then .error (.panic .gtLastIndex)
  else if i ≤ a.prev then .error .notFound
  else .ok ((a.entries.drop (i - a.prev - 1)).take n).flatten

def snoc (a : AbsLog) (b : Bytes) : AbsLog := { a with entries := a.entries ++ [b] }

/-- `RemoveGTE(i)` on the abstract log.  If `i ≤ prev` the log restarts at `i-1`. -/
def removeGTE (a : AbsLog) (i : Nat) : AbsLog :=
  if i ≤ a.prev then { prev := i - 1, entries := [] }
  else { a with entries := a.entries.take (i - a.prev - 1) }

/-- Dropping the first `k` entries. -/
def dropFront (a : AbsLog) (k : Nat) : AbsLog := { prev := a.prev + k, entries := a.entries.drop k }

def reset (j : Nat) : AbsLog := { prev := j, entries := [] }

end AbsLog

/-! ## Part 3 — files, micro-steps, crash images, reopen -/

/-- One segment file: volatile (mmap / page cache) and durable (as of the last msync) image. -/
structure FileSt where
  cap : Nat               -- file size; 0 = created but not yet truncated
  vhdr : Nat
  vunits : List Bytes
  dhdr : Nat
  dunits : List Bytes
  deriving DecidableEq, Repr, Inhabited

/-- What a reopen sees of one file. -/
structure FileImg where
  cap : Nat
  hdr : Nat
  units : List Bytes
  deriving DecidableEq, Repr, Inhabited

/-- A directory: files keyed by the number in `<n>.log`, NEWEST (largest name) FIRST. -/
abbrev Disk := List (Nat × FileSt)
abbrev Img := List (Nat × FileImg)

inductive Step
  | store (name n : Nat)                -- 8-byte header store into the mapping
  | write (name k : Nat) (b : Bytes)    -- entry unit at position k (0-based): data + end-offset slot
  | msync (name : Nat)
  -- createSegment (repaired): everything happens on `<name>.log.tmp`, which no reopen looks at
  | tmpCreate (name : Nat)              -- os.OpenFile(tmp, O_CREATE|O_TRUNC): zero length tmp file
  | tmpTruncate (name size : Nat)       -- f.Truncate(size)
  | tmpZero16 (name : Nat)              -- f.WriteAt(16 zero bytes, size-16)
  | tmpFsync (name : Nat)               -- f.Sync()
  | rename (name size : Nat)            -- os.Rename(tmp, name): `<name>.log` appears, complete
  -- createSegment before the repair (kept only for `prefix_create_counterexample`)
  | create (name : Nat)                 -- os.OpenFile(name, O_CREATE): zero length `<name>.log`
  | truncate (name size : Nat)
  | zero16 (name : Nat)
  | fsync (name : Nat)
  | remove (name : Nat)
  deriving Repr, Inhabited

def FileSt.zero (cap : Nat) : FileSt := { cap := cap, vhdr := 0, vunits := [], dhdr := 0, dunits := [] }

def upd (name : Nat) (f : FileSt → FileSt) : Disk → Disk
  | [] => []
  | (p, x) :: rest => if p = name then (p, f x) :: rest else (p, x) :: upd name f rest

/-- Insert keeping names descending; an existing name is left alone (`O_CREATE` without `O_TRUNC`). -/
def ins (name : Nat) (x : FileSt) : Disk → Disk
  | [] => [(name, x)]
  | (p, y) :: rest =>
    if name > p then (name, x) :: (p, y) :: rest
    else if name = p then (p, y) :: rest
    else (p, y) :: ins name x rest

/-- The directory model holds the `*.log` files only: `segments()` globs `*.log`, so a
`<name>.log.tmp` (left by a crash or in progress) is invisible to `Open`; the four tmp steps
therefore do not change the modelled directory, and `rename` makes the finished file appear. -/
def Step.run (d : Disk) : Step → Disk
  | .store name n => upd name (fun f => { f with vhdr := n }) d
  | .write name k b => upd name (fun f => { f with vunits := f.vunits.take k ++ [b] }) d
  | .msync name => upd name (fun f => { f with dhdr := f.vhdr, dunits := f.vunits }) d
  | .tmpCreate _ => d
  | .tmpTruncate _ _ => d
  | .tmpZero16 _ => d
  | .tmpFsync _ => d
  | .rename name size => ins name (FileSt.zero size) d
  | .create name => ins name (FileSt.zero 0) d
  | .truncate name size => upd name (fun _ => FileSt.zero size) d
  | .zero16 _ => d
  | .fsync name => upd name (fun f => { f with dhdr := f.vhdr, dunits := f.vunits }) d
  | .remove name => d.filter (fun pf => pf.1 != name)

def runSteps (d : Disk) : List Step → Disk
  | [] => d
  | st :: rest => runSteps (st.run d) rest

/-! ### Scripts: the micro-steps of every operation, as a function of the in-memory state -/

def Seg.syncSteps (s : Seg) : List Step :=
  if s.dirty then [.msync s.prev, .store s.prev s.n, .msync s.prev] else []

def Seg.removeGTESteps (s : Seg) (i : Nat) : List Step :=
  if i - s.prev - 1 < s.n then
    [.store s.prev (i - s.prev - 1), .msync s.prev, .store s.prev (i - s.prev - 1), .msync s.prev]
  else s.syncSteps

def createSteps (name size : Nat) : List Step :=
  [.tmpCreate name, .tmpTruncate name size, .tmpZero16 name, .tmpFsync name, .rename name size]

/-- `createSegment` as it was before the repair (created `<name>.log` directly). -/
def oldCreateSteps (name size : Nat) : List Step :=
  [.create name, .truncate name size, .zero16 name, .fsync name]

def commitSteps (n : Nat) : List Seg → List Step
  | [] => []
  | s :: older =>
    if !s.dirty then []
    else if s.prev ≥ n then commitSteps n older
    else s.syncSteps ++ commitSteps n older

/-- Names removed by `RemoveLTE` in removal order (oldest first); parallel to `dropOld`. -/
def dropOldNames (i : Nat) : List Seg → List Nat
  | [] => []
  | s :: older =>
    match dropOld i older with
    | [] => dropOldNames i older ++ (if s.n > 0 ∧ s.lastIndex ≤ i then [s.prev] else [])
    | _ :: _ => dropOldNames i older

def rgteSteps (i ss : Nat) : Seg → List Seg → List Step
  | s, [] =>
    if i ≤ s.prev + 1 then
      if i = s.prev + 1 then s.removeGTESteps (s.prev + 1)
      else s.syncSteps ++ [.remove s.prev] ++ createSteps (i - 1) ss
    else s.removeGTESteps (min i (s.lastIndex + 1))
  | s, o :: os =>
    if i ≤ s.prev + 1 then s.syncSteps ++ [.remove s.prev] ++ rgteSteps i ss o os
    else s.removeGTESteps (min i (s.lastIndex + 1))

/-- `Reset`: `closeAndRemove` from `first` to `last` (each `close` syncs), then the new segment. -/
def resetRemoveSteps : List Seg → List Step
  | [] => []
  | s :: older => resetRemoveSteps older ++ s.syncSteps ++ [.remove s.prev]

def script (l : SegLog) : Op → List Step
  | .append b =>
    if l.last.available < (b.length : Int) then
      if l.last.n = 0 then []
      else
        let ss := if b.length + 24 > l.segmentSize then b.length + 24 else l.segmentSize
        commitSteps l.lastIndex l.segs ++ createSteps l.lastIndex ss ++ [.write l.lastIndex 0 b]
    else [.write l.last.prev l.last.n b]
  | .commitN n => commitSteps n l.segs
  | .commit => commitSteps l.lastIndex l.segs
  | .removeLTE i =>
    commitSteps l.lastIndex l.segs ++ (dropOldNames i l.commit.older).map Step.remove
  | .removeGTE i =>
    commitSteps l.lastIndex l.segs ++ rgteSteps i l.segmentSize l.commit.last l.commit.older
  | .reset j => resetRemoveSteps l.segs ++ createSteps j l.segmentSize
  | .closeOpen _ => commitSteps l.lastIndex l.segs

/-! ### Crash images -/

def FileSt.kill (f : FileSt) : FileImg := { cap := f.cap, hdr := f.vhdr, units := f.vunits }

/-- Process kill: the file is the volatile image. -/
def killImg (d : Disk) : Img := d.map (fun pf => (pf.1, pf.2.kill))

/-- Power loss, one file: the header is the durable or the volatile one; a unit that is the same
in both images is that unit; every other unit position is ARBITRARY (old, new, torn, absent).
The size is the volatile one (truncate is assumed durable). -/
def FileSt.PowerImg (f : FileSt) (g : FileImg) : Prop :=
  g.cap = f.cap ∧ (g.hdr = f.dhdr ∨ g.hdr = f.vhdr) ∧
  ∀ (k : Nat) (b : Bytes), f.dunits[k]? = some b → f.vunits[k]? = some b → g.units[k]? = some b

/-- Power loss, whole directory (directory operations are assumed durable). -/
def PowerImg : Disk → Img → Prop
  | [], [] => True
  | (p, f) :: d, (q, g) :: i => p = q ∧ f.PowerImg g ∧ PowerImg d i
  | _, _ => False

/-! ### Reopen (`openSegments`) -/

/-- `openSegment` on an existing file. -/
def openSeg (name : Nat) (g : FileImg) : Except Err Seg :=
  if g.cap = 0 then .error .openFail
  else if g.hdr ≤ g.units.length ∧ dataSize (g.units.take g.hdr) + 8 * (g.hdr + 2) ≤ g.cap then
    .ok { prev := name, entries := g.units.take g.hdr, synced := (g.hdr : Int), cap := g.cap }
  else .error .corrupt

/-- The `for _, off := range offs` loop, files in ASCENDING name order.  Result: the chain and the
dangling file that was removed, after which the function returns (the quirk). -/
def reopenLoop : Seg → List Seg → Img → Except Err (Seg × List Seg × Option Nat)
  | last, older, [] => .ok (last, older, none)
  | last, older, (off, g) :: rest =>
    if last.n > 0 ∧ off = last.lastIndex then
      match openSeg off g with
      | .error e => .error e
      | .ok s => reopenLoop s (last :: older) rest
    else .ok (last, older, some off)

def FileImg.fresh (cap : Nat) : FileImg := { cap := cap, hdr := 0, units := [] }

/-- `Open(dir, Options{SegmentSize: ss})` on the image `img` (newest first).  Returns the log and
the directory afterwards. -/
def reopen (img : Img) (ss : Nat) : Except Err (SegLog × Img) :=
  match img.reverse with
  | [] => .ok (SegLog.empty ss, [(0, FileImg.fresh ss)])
  | (off, g) :: rest =>
    match openSeg off g with
    | .error e => .error e
    | .ok s =>
      match reopenLoop s [] rest with
      | .error e => .error e
      | .ok (last, older, rm) =>
        .ok ({ last := last, older := older, segmentSize := ss },
             match rm with
             | none => img
             | some r => img.filter (fun pf => pf.1 != r))

/-- The clean directory of a committed log. -/
def Seg.toFile (s : Seg) : Nat × FileSt :=
  (s.prev, { cap := s.cap, vhdr := s.n, vunits := s.entries, dhdr := s.n, dunits := s.entries })

def SegLog.toDisk (l : SegLog) : Disk := l.segs.map Seg.toFile

end Raft.SL
