/-
M4 — one node's raft goroutine: state. (raft.go, storage.go, leader.go, candidate.go, transfer.go,
fsm.go, snapshots.go as seen from the raft goroutine.)  Core Lean only.

Conventions
* Handlers are total state transformers `Node → Node`. A Go panic (assert, nil dereference, bug{}) is
  recorded in `panicked` (first site wins) and execution continues on a totalised path; results after
  a panic are never compared with the implementation.
* Outputs of a step (task replies, rpc reply, crash-point trace) are ghost fields cleared by `Node.begin`.
* Inputs that the Go code takes from the environment are oracle fields set per step:
  `rollAt` (segment roll-over, see Model/Log.lean) and `order` (Go map iteration order over `l.repls`).
-/
import RaftVerif.Model.Log

namespace Raft

/-- decreasing order used by `sort.Sort(decrUint64Slice)` -/
def geB (a b : Nat) : Bool := decide (a ≥ b)

inductive Role where
  | follower | candidate | leader
  deriving DecidableEq, Repr, Inhabited

/-- rpcResult constants (messages.go). -/
abbrev rSuccess : Nat := 1
abbrev rIdentityMismatch : Nat := 2
abbrev rStaleTerm : Nat := 3
abbrev rAlreadyVoted : Nat := 4
abbrev rLeaderKnown : Nat := 5
abbrev rLogNotUptodate : Nat := 6
abbrev rPrevEntryNotFound : Nat := 7
abbrev rPrevTermMismatch : Nat := 8
abbrev rNonVoter : Nat := 9
abbrev rReadErr : Nat := 10
abbrev rUnexpectedErr : Nat := 11

/-- `type round struct` (changeconfig.go). `finished` = `!End.IsZero()`; `aged` = the wall-clock bit
`Duration() > promoteThreshold` (for an unfinished round: would be so if finished now). -/
structure Round where
  ordinal : Nat := 0
  lastIndex : Nat := 0
  finished : Bool := false
  aged : Bool := false
  deriving DecidableEq, Repr, Inhabited

/-- `replicationStatus` as owned by the leader goroutine. -/
structure Repl where
  id : Nat := 0
  matchIndex : Nat := 0
  noContact : Bool := false
  node : CNode := {}
  round : Option Round := none
  removeLTE : Nat := 0
  deriving DecidableEq, Repr, Inhabited

/-- `newEntry` in the leader queue (`neHead..neTail`) or in a submitted batch. `task = 0`: none. -/
structure QItem where
  index : Nat := 0
  term : Nat := 0
  typ : Nat := 0
  data : String := ""
  cfg : Option Config := none
  task : Nat := 0
  deriving DecidableEq, Repr, Inhabited

def QItem.toEntry (q : QItem) : Entry :=
  { index := q.index, term := q.term, typ := q.typ, data := q.data, cfg := q.cfg }

/-- `type transfer struct`. `active` = `timer.active`, `respPending` = `respCh != nil`. -/
structure Transfer where
  active : Bool := false
  target : Nat := 0
  term : Nat := 0
  task : Nat := 0
  respPending : Bool := false
  newTermTimer : Bool := false
  deriving DecidableEq, Repr, Inhabited

def Transfer.targetChosen (t : Transfer) : Bool := t.respPending || t.newTermTimer

/-- `type leader struct` (volatile; meaningful only while role = leader). -/
structure Leader where
  node : CNode := {}
  numVoters : Nat := 0
  startIndex : Nat := 0
  queue : List QItem := []
  repls : List Repl := []          -- sorted by id
  transfer : Transfer := {}
  waitStable : List Nat := []      -- task ids
  removeLTE : Nat := 0
  deriving DecidableEq, Repr, Inhabited

/-- The FSM goroutine's state with a recording state machine: `applied` is the list of update
payloads applied so far (Snapshot/Restore are the identity on it). -/
structure Fsm where
  index : Nat := 0
  term : Nat := 0
  applied : List String := []
  /-- last configuration entry applied or restored: the configuration in force at `index` -/
  config : Config := {}
  deriving DecidableEq, Repr, Inhabited

/-- A snapshot on disk: `<index>.meta` + `<index>.snap`. -/
structure SnapFile where
  index : Nat := 0
  term : Nat := 0
  config : Config := {}
  data : List String := []
  deriving DecidableEq, Repr, Inhabited

/-- Pending TakeSnapshot (`r.snapTakenCh != nil`): what the raft goroutine captured. -/
structure SnapReq where
  task : Nat := 0
  minIndex : Nat := 0          -- r.snaps.index + threshold
  config : Config := {}        -- r.configs.Committed at request time
  deriving DecidableEq, Repr, Inhabited

/-- Item waiting in `snapTakenCh`. `err = ""` means success with `meta`. -/
structure SnapRes where
  task : Nat := 0
  err : String := ""
  index : Nat := 0
  deriving DecidableEq, Repr, Inhabited

/-- What is on disk (what `openStorage` reads). -/
structure Durable where
  cid : Nat := 0
  nid : Nat := 0
  term : Nat := 0
  vote : Nat := 0
  log : NLog := {}
  snaps : List SnapFile := []     -- descending by index
  deriving DecidableEq, Repr, Inhabited

/-- A task completion: task id and canonical result. -/
structure Reply where
  task : Nat := 0
  result : String := ""
  deriving DecidableEq, Repr, Inhabited

/-- An RPC reply. -/
structure RpcReply where
  term : Nat := 0
  result : Nat := 0
  lastLogIndex : Nat := 0
  resetTimer : Bool := false
  deriving DecidableEq, Repr, Inhabited

structure Node where
  -- identity and options
  cid : Nat := 0
  nid : Nat := 0
  retain : Nat := 1
  shutdownOnRemove : Bool := true
  -- persistent (memory copy + disk)
  term : Nat := 0
  votedFor : Nat := 0
  durTerm : Nat := 0
  durVote : Nat := 0
  log : NLog := {}
  lastLogIndex : Nat := 0
  lastLogTerm : Nat := 0
  snapIndex : Nat := 0
  snapTerm : Nat := 0
  snapsDisk : List SnapFile := []
  configs : Configs := {}
  -- volatile
  role : Role := .follower
  leader : Nat := 0
  commitIndex : Nat := 0
  fsm : Fsm := {}
  votesNeeded : Int := 0
  candTransfer : Bool := false
  ldr : Leader := {}
  snapPending : Option SnapReq := none
  snapResult : Option SnapRes := none
  closed : String := ""            -- "" = running, else closeReason
  -- oracle inputs of the current step
  rollAt : List Nat := []
  /-- Go map iteration orders over `l.repls`, one per iteration (consumed front to back) -/
  orders : List (List Nat) := []
  -- ghost outputs of the current step
  replies : List Reply := []
  rpcReply : Option RpcReply := none
  result : Nat := 0                 -- rpcResult of the request being handled
  trace : List (String × Durable) := []
  panicked : Option String := none
  deriving Repr, Inhabited

namespace Node

def durable (s : Node) : Durable :=
  { cid := s.cid, nid := s.nid, term := s.durTerm, vote := s.durVote,
    log := s.log.durable, snaps := s.snapsDisk }

/-- Start of a step: clear ghost outputs, install oracles. -/
def begin (s : Node) (rollAt : List Nat) (orders : List (List Nat)) : Node :=
  { s with rollAt := rollAt, orders := orders, replies := [], rpcReply := none, result := 0, trace := [],
           panicked := none }

def panic (s : Node) (site : String) : Node :=
  if s.panicked.isNone then { s with panicked := some site } else s

def assert (s : Node) (b : Bool) (site : String) : Node := if b then s else s.panic site

/-- A `verifPoint`: remember what is durable at this instant. -/
def point (s : Node) (name : String) : Node := { s with trace := s.trace ++ [(name, s.durable)] }

def reply (s : Node) (task : Nat) (result : String) : Node :=
  if task = 0 then s else { s with replies := s.replies ++ [{ task := task, result := result }] }

def setRole (s : Node) (r : Role) : Node := { s with role := r }
/-- one iteration over `l.repls` has used up its order -/
def popOrder (s : Node) : Node := { s with orders := s.orders.tail }
def withLdr (s : Node) (l : Leader) : Node := { s with ldr := l }
def withFsm (s : Node) (f : Fsm) : Node := { s with fsm := f }
def withVotesNeeded (s : Node) (v : Int) : Node := { s with votesNeeded := v }
def withCandTransfer (s : Node) (b : Bool) : Node := { s with candTransfer := b }
def withSnapPending (s : Node) (v : Option SnapReq) : Node := { s with snapPending := v }
def withSnapResult (s : Node) (v : Option SnapRes) : Node := { s with snapResult := v }
def withRpcReply (s : Node) (v : Option RpcReply) : Node := { s with rpcReply := v }
def withCommitIndex (s : Node) (i : Nat) : Node := { s with commitIndex := i }
def withLast (s : Node) (i t : Nat) : Node := { s with lastLogIndex := i, lastLogTerm := t }
/-- the handler's `return result, nil` -/
def ret (s : Node) (r : Nat) : Node := { s with result := r }
def setLeader (s : Node) (id : Nat) : Node := { s with leader := id }

/-- `value.set` on the term file + memory update. -/
def storeTermVote (s : Node) (t c : Nat) : Node :=
  let s := if t = s.durTerm ∧ c = s.durVote then s
           else ({ s with durTerm := t, durVote := c }).point "value.set"
  { s with term := t, votedFor := c }

/-- `storage.setTerm`. A failed assert panics before anything is stored. -/
def setTerm (s : Node) (t : Nat) : Node :=
  if s.term ≠ t then (if t > s.term then s.storeTermVote t 0 else s.panic "assert.setTerm") else s

/-- `storage.setVotedFor`. A failed assert panics before anything is stored. -/
def setVotedFor (s : Node) (t c : Nat) : Node :=
  if t ≠ s.term ∨ c ≠ s.votedFor then (if t ≥ s.term then s.storeTermVote t c else s.panic "assert.setVotedFor")
  else s

/-- `storage.appendEntry`. -/
def appendEntry (s : Node) (e : Entry) : Node :=
  let s := s.assert (e.index == s.lastLogIndex + 1) "assert.appendEntry"
  let roll := s.rollAt.contains (e.index - 1) && s.log.lastSegPrev != e.index - 1
  { s with log := s.log.append e roll, lastLogIndex := e.index, lastLogTerm := e.term }

/-- `storage.commitLog`. -/
def commitLog (s : Node) (n : Nat) : Node :=
  ({ s with log := s.log.commitN n }).point "commitLog"

/-- `storage.removeGTE`. -/
def removeGTE (s : Node) (i prevTerm : Nat) : Node :=
  ({ s with log := s.log.removeGTE i, lastLogIndex := i - 1, lastLogTerm := prevTerm }).point "removeGTE"

/-- `Raft.compactLog` / `storage.removeLTE`. -/
def compactLog (s : Node) (i : Nat) : Node :=
  ({ s with log := s.log.removeLTE i }).point "compactLog"

/-- `storage.clearLog`. -/
def clearLog (s : Node) : Node :=
  ({ s with log := NLog.reset s.snapIndex, lastLogIndex := s.snapIndex, lastLogTerm := s.snapTerm }).point "clearLog"

/-- `storage.mustGetEntry` (term only is ever used by callers). `none` ⇒ Go panics. -/
def entryTerm? (s : Node) (i : Nat) : Option Nat := (s.log.get? i).map (·.term)

def isClosed (s : Node) : Bool := s.closed != ""

/-- `Raft.doClose` (closeOnce). -/
def doClose (s : Node) (reason : String) : Node := if s.isClosed then s else { s with closed := reason }

/-- Insert keeping task order; a task replied again keeps only its last result (`task.reply`
overwrites `result`, the done channel is closed once). -/
def insertReply (r : Reply) : List Reply → List Reply
  | [] => [r]
  | x :: xs =>
    if r.task < x.task then r :: x :: xs
    else if r.task = x.task then r :: xs
    else x :: insertReply r xs

/-- Canonical form compared with the implementation: leader/candidate-only fields are meaningless
(stale) in other roles. -/
def canon (s : Node) : Node :=
  { s with ldr := (if s.role = .leader then s.ldr else {}),
           replies := s.replies.foldl (fun acc r => insertReply r acc) [],
           votesNeeded := if s.role = .candidate then s.votesNeeded else 0,
           rollAt := [], orders := [], trace := [], result := 0 }

/-- `notLeaderError(r, lost)` canonical form. -/
def notLeader (s : Node) (lost : Bool) : String :=
  let ldr := if s.leader ≠ 0 then (s.configs.latest.get s.leader).id else 0
  s!"notLeader:{ldr}:{lost}"

end Node
end Raft
