/-!
# Timing rules of replication.go / util.go (durations in nanoseconds, as Go's time.Duration)

`backOff` is the hand-written model of util.go `backOff`; it is tied to the code by the differential engine repldiff
(`what = "backOff"`, hook `VerifBackOff`). The *call-site* facts (which bound is handed to `backOff`, the idle heartbeat
period, the election timeout range) are NOT written by hand: they are regenerated from the Go source on every run by the
translator `go/astfacts` into `RaftGen/Gen/Skel.lean`.
-/
namespace Raft.Timing

def failureWait : Nat := 10 * 1000000
def maxFailureScale : Nat := 12

/-- util.go `backOff(round, max)`: `failureWait` doubled `min(round, maxFailureScale) - 2` times, capped at `max` -/
def backOff (round max : Nat) : Nat :=
  let power := min round maxFailureScale
  let base := failureWait * 2 ^ (power - 2)
  if base > max then max else base

end Raft.Timing
