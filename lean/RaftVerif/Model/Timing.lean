/-!
# Timing rules of replication.go / util.go (durations in nanoseconds, as Go's time.Duration)

`backOff` is the hand-written model of util.go `backOff`; it is tied to the code by the differential engine repldiff
(`what = "backOff"`, hook `VerifBackOff`). The *call-site* facts (which bound is handed to `backOff`, the idle heartbeat
period, the election timeout range) are NOT written by hand: they are regenerated from the Go source on every run by the
translator `go/astfacts` into `RaftGen/Gen/Skel.lean`.
-/
namespace Raft.Timing

def failureWait : Nat := 10 * 1000000
def maxFailureScale : Nat := 12

/-- util.go `backOff(round, max)`: `failureWait` doubled `min(round, maxFailureScale) - 2` times, capped at `max` -/
def backOff (round max : Nat) : Nat :=
  let power := min round maxFailureScale
  let base := failureWait * 2 ^ (power - 2)
  if base > max then max else base

/-- util.go `durationFor(bandwidth, n)`: the time `n` bytes need at `bandwidth` bytes per second, in nanoseconds. The Go
function computes `1e9 * (float64(n) / float64(bandwidth))` in floating point and truncates; this is the exact rational value
truncated. The repldiff correspondence compares them up to the floating-point rounding error (relative 2⁻⁴⁰, absolute 1 ns). -/
def durationFor (bandwidth n : Nat) : Nat := n * 1000000000 / bandwidth

end Raft.Timing
