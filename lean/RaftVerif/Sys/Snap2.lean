/-
The cluster-level transition system with local snapshots AND log compaction (stage 2 of the extension of `Raft.Commit`
by snapshots, compaction and snapshot installation; stage 1: Sys/Snap.lean).

`Snap2.Sys` = the nodes and ledgers of `Snap.Sys` (Sys/Snap.lean) plus one more ghost component

* `base i` — the entries node `i` removed from the front of its log by compaction (`Raft.compactLog` /
             `storage.removeLTE`). The VIRTUAL log of node `i` is `base i ++ log.entries` (`Sys.vlog`; formally the log
             of `Sys.vnode i = U (base i) (node i)`, Lemmas/SnapRelU.lean: it starts at index 1 again).

What is NEW with respect to Sys/Snap.lean: `.snapTaken` (`Raft.onSnapshotTaken`) is enabled WITHOUT the premise that
it leaves the log alone: it compacts the log up to a segment boundary at or below the snapshot (lowered by the match
indexes of the followers when the node leads), `log.prev` becomes positive, and from then on
* `Log.Get(i)` fails for `i ≤ log.prev`: a leader cannot read those entries any more, `fsmApply`, `mustGetEntry`,
  `ViewAt` would fail an assertion on them;
* a restart finds a log that does not start at index 1 and relies on the newest snapshot for what is missing.

The ledgers (`grants`, `counted`, `won`, `sent`, `created`, `acks`, `camps`, `committed`) are kept as in `Raft.Commit`
but are computed on the VIRTUAL nodes: an index is an index into `base ++ entries` (`stepL` below is `C02Sys.stepC`
with the state after the step as a parameter).

Restrictions of this stage (`_partial`), in addition to those of `Raft.Commit` (fixed voter set `V`, fixed stable
configuration, no forged requests — see Sys/Commit.lean):
* **no installation; compaction only by `onSnapshotTaken`**: `.install` and `.shutdown` never occur and replication
  updates never report a compaction (`Snap.OpOKS` — so `leader.checkLogCompact`, the compaction the leader delays for
  a slow follower, does not run);
* completed steps do not fail an assertion, and a process dies only in a step that would not fail one (`panicked =
  none`; a Go panic kills the process);
* side conditions on every state of a run (`Side2`): `SideV` and `CfgDec` as in stage 1 (the latter on the virtual
  logs); the segment list of every log is well formed (`C09.SegsOK`: strictly increasing, starts at `log.prev`, within
  the log — Model/SegLog.lean is about that layer); **no log is compacted exactly up to its snapshot index**
  (`log.prev = 0 ∨ log.prev ≠ snapIndex`: the entry at the snapshot index stays in the log. This excludes a compaction
  when a segment boundary coincides with the snapshot index, and a restart that resets a log shorter than the newest
  snapshot. It is used where `openStorage` takes the term of the last entry from the snapshot when the log is empty,
  and where `RemoveGTE` would empty the log);
* a restart is given `retain ≥ 1`.
-/
import RaftVerif.Sys.Snap
import RaftVerif.Lemmas.SnapRelU4
import RaftVerif.Lemmas.SnapBump
import RaftVerif.Props.C09

namespace Raft
namespace Snap2
open Node Election LogRel Replication CommitRel Commit C02Sys SnapRelU SnapSim Snap

/-- The cluster with the ghost ledger of snapshot files and the ghost record of the compacted-away entries. -/
structure Sys where
  cs : Commit.Sys
  /-- (node, file): every snapshot file a node ever had on disk -/
  snaps : List (Nat × SnapFile)
  /-- the entries node `i` removed from the front of its log (ghost) -/
  base : Nat → List Entry

/-- node `i` of the cluster -/
abbrev Sys.node (x : Sys) (i : Nat) : Node := x.cs.node i

/-- node `i` with its log un-compacted: the compacted-away entries are put back in front (`SnapRelU.U`) -/
def Sys.vnode (x : Sys) (i : Nat) : Node := U (x.base i) (x.node i)

/-- the virtual log of node `i`: `base i ++ log.entries`; its entry number `k` (from 0) has index `k + 1` -/
def Sys.vlog (x : Sys) (i : Nat) : List Entry := (x.vnode i).log.entries

/-- the cluster of the virtual nodes, as a state of the system of stage 1 -/
def view (x : Sys) : Snap.Sys := { cs := withNodes x.cs x.vnode, snaps := x.snaps }

def setBase (b : Nat → List Entry) (i : Nat) (β : List Entry) : Nat → List Entry := fun j => if j = i then β else b j

/-- `C02Sys.stepC` with the state `post` of node `i` after the step as a parameter: the ledgers record what the node
acknowledged, the campaign it started, the entries it created and the index its leader-side commit rule reached -/
def stepL (z : Commit.Sys) (i : Nat) (op : Op) (src : Nat) (post : Node) : Commit.Sys :=
  { rp := { el := { node := setNode z.rp.el.node i post
                    grants := voteGrant i op post ++ (selfGrant i (z.node i) post ++ z.rp.el.grants)
                    counted := countedBy i (z.node i) op src ++ z.rp.el.counted
                    won := (if post.role = .leader then [(i, post.term)] else []) ++ z.rp.el.won }
            sent := z.rp.sent
            created := newCreated i (z.node i).log.entries post.log.entries op ++ z.rp.created }
    acks := ackOf i op post ++ (selfAck i op (z.node i) post ++ z.acks)
    camps := campOf i (z.node i) post ++ z.camps
    committed := newCommit op (z.node i) post ++ z.committed }

theorem stepC_eq (z : Commit.Sys) (i : Nat) (op : Op) (ra : List Nat) (ord : List (List Nat)) (src : Nat) :
    stepC z i op ra ord src = stepL z i op src ((z.node i).step op ra ord) := rfl

/-- the compacted-away entries of node `i` when its log starts after index `p`: the first `p` virtual entries -/
def newBase (x : Sys) (i : Nat) (p : Nat) : List Entry := (x.vlog i).take p

/-- the state after node `i` handled `op` to completion: the node is replaced; the ledgers are updated on the virtual
nodes; what a compaction removed is added to `base i` -/
def stepS (x : Sys) (i : Nat) (op : Op) (ra : List Nat) (ord : List (List Nat)) (src : Nat) : Sys :=
  { cs := withNodes
      (stepL (view x).cs i op src
        (U (newBase x i ((x.node i).step op ra ord).log.prev) ((x.node i).step op ra ord)))
      (setNode x.cs.rp.el.node i ((x.node i).step op ra ord))
    snaps := newSnaps i (x.node i).snapsDisk ((x.node i).step op ra ord).snapsDisk ++ x.snaps
    base := setBase x.base i (newBase x i ((x.node i).step op ra ord).log.prev) }

/-- the state after node `i` died while handling `op` and restarted as `n` -/
def crashS (x : Sys) (i : Nat) (op : Op) (n : Node) : Sys :=
  { cs := withNodes (crashC (view x).cs i op (U (newBase x i n.log.prev) n)) (setNode x.cs.rp.el.node i n)
    snaps := newSnaps i (x.node i).snapsDisk n.snapsDisk ++ x.snaps
    base := setBase x.base i (newBase x i n.log.prev) }

/-- `q` is what a replication goroutine of the leader `s` (virtual node `v`) reads from the leader's log: as
`Replication.ReadFrom`, from the part of the log that is still there -/
structure ReadFrom2 (s v : Node) (q : AppendReq) : Prop where
  read : ReadFrom v q
  there : s.log.prev ≤ q.prevLogIndex

inductive Trans (x : Sys) : Sys → Prop
  /-- node `i` handles an enabled operation to completion, without failing an assertion -/
  | step (i : Nat) (op : Op) (ra : List Nat) (ord : List (List Nat)) (src : Nat) : Snap.Enabled x.cs i op src →
      ((x.node i).step op ra ord).panicked = none →
      Trans x (stepS x i op ra ord src)
  /-- node `i` dies while handling an enabled operation (that would not fail an assertion), after `k` storage points,
  and restarts from what is on disk (log, term and vote, snapshot files) -/
  | crash (i : Nat) (op : Op) (ra : List Nat) (ord : List (List Nat)) (src k retain : Nat) (sor : Bool)
      (n : Node) : Snap.Enabled x.cs i op src → 1 ≤ retain →
      ((x.node i).step op ra ord).panicked = none →
      Node.restart (C05.crashDisk (x.node i) op ra ord k) retain sor = some n →
      Trans x (crashS x i op n)
  /-- the leader `i` puts an append request read from its log on the wire -/
  | send (i : Nat) (q : AppendReq) : i ≠ 0 → (x.node i).role = .leader → ReadFrom2 (x.node i) (x.vnode i) q →
      q.ldrCommitIndex ≤ (x.node i).commitIndex →
      Trans x { x with cs := sendC x.cs q }

/-- Side condition on every state of a run: `Commit.SideV` (bootstrapped, voters `V`, stable latest configuration),
configuration entries of the virtual logs decode, segment lists are well formed, no log is compacted exactly up to its
snapshot index. -/
structure Side2 (V : List Nat) (x : Sys) : Prop where
  sideV : SideV V x.cs
  dec : CfgDec (view x).cs
  segs : ∀ i, C09.SegsOK (x.node i).log
  gap : ∀ i, (x.node i).log.prev = 0 ∨ (x.node i).log.prev ≠ (x.node i).snapIndex

/-- Initial states: the cluster of the virtual nodes is an initial state of stage 1 (`Snap.Init`: in particular no
snapshot anywhere, every node a follower whose memory matches its disk, logs pairwise matching and flushed); every log
starts at index 1 (so a virtual node differs from the real one only in the compaction bounds of its — unused — leader
record), no snapshot result is pending. -/
structure Init (x : Sys) : Prop where
  init : Snap.Init (view x)
  prev : ∀ i, (x.node i).log.prev = 0
  snapIndex : ∀ i, (x.node i).snapIndex = 0
  result : ∀ i, (x.node i).snapResult = none

/-- States reachable by runs in which `Side2 V` holds in every state. -/
inductive Reachable2 (V : List Nat) : Sys → Prop
  | init (x : Sys) : Init x → Side2 V x → Reachable2 V x
  | next (x y : Sys) : Reachable2 V x → Trans x y → Side2 V y → Reachable2 V y

end Snap2
end Raft
