/-
A cluster-level transition system for log replication — `Election.Sys` (Sys/Election.lean: any node performs
any operation of `Node.step` at any time; crashes at any storage point + restart; ledgers of granted and
counted votes and of leaders) extended by two ghost ledgers:

* `sent`    — every append request a leader has put on the wire (`Trans.send`: read from the leader's own
              log the way `replication.writeAppendEntriesReq` does: `prevLogIndex = p`, `prevLogTerm` = the term
              of its entry at `p` (0 for `p = 0`), entries = a contiguous slice of its log starting at `p+1`);
* `created` — every entry a node appended to its OWN log (as leader: `storeEntry`), with the term of the entry
              before it and the node's id (`LogRel.CEntry`); initially: the entries of the initial logs.

Environment assumptions (everything else is arbitrary: schedule, delays, duplication, loss, reordering,
delivery of any sent request to ANY node any number of times, crashes at any storage point):
* an append request that is not refused as stale (`q.term ≥` the receiver's term) is in `sent` — no forged
  append requests;
* vote traffic as in `Election.Trans` (`RealReply` for counted vote responses, non-zero candidate ids);
* **restrictions of this `_partial` model** (`LogRel.OpOK`): no snapshot is ever installed, taken or published
  and the log is never compacted — the operations `install`, `snapRun`, `snapTaken`, `shutdown` (whose
  `Raft.release` completes a pending snapshot) never occur, and replication updates never report a compaction;
  membership is fixed (`Election.FixedV` in every state, as in C01Sys).
  The reason for excluding local snapshots: `onAppendEntriesRequest` skips the consistency check for
  `prevLogIndex ≤ snapIndex`; that the follower's entries up to its snapshot index agree with the leader's is
  a consequence of commit safety (leader completeness), not of log matching alone.
A crash is the death of the process while it handles an operation that could be delivered (same constraints).
-/
import RaftVerif.Lemmas.LogRel
import RaftVerif.Props.C01Sys

namespace Raft
namespace Replication
open Node Election LogRel

structure Sys where
  el : Election.Sys
  sent : List AppendReq
  created : List CEntry

/-- the entries `es`, created by `cr`, each with the term of its predecessor (`pt` for the first) -/
def chainOf (cr : Nat) : Nat → List Entry → List CEntry
  | _, [] => []
  | pt, e :: es => ⟨e, pt, cr⟩ :: chainOf cr e.term es

/-- What node `i` created in a step from log `pre` to log `post`: nothing when handling an append request
(those entries were created by the sender); otherwise the entries beyond the old log. -/
def newCreated (i : Nat) (pre post : List Entry) (op : Op) : List CEntry :=
  match op with
  | .append _ => []
  | _ => chainOf i (lastTerm pre) (post.drop pre.length)

/-- `q` is what a replication goroutine of the leader `s` reads from the leader's log for `prevLogIndex = p` -/
structure ReadFrom (s : Node) (q : AppendReq) : Prop where
  term : q.term = s.term
  src : q.src = s.nid
  prev : q.prevLogIndex ≤ s.log.entries.length
  prevTerm : q.prevLogTerm = termAt s.log.entries q.prevLogIndex
  entries : ∃ n, q.entries = (s.log.entries.drop q.prevLogIndex).take n

/-- what may be delivered to node `i` -/
structure Enabled (x : Sys) (i : Nat) (op : Op) (src : Nat) : Prop where
  id : i ≠ 0
  voteSrc : ∀ q, op = .vote q → q.src ≠ 0
  real : Counts (x.el.node i) op → RealReply x.el i src
  ok : OpOK op
  append : ∀ q, op = .append q → q.term < (x.el.node i).term ∨ q ∈ x.sent

inductive Trans (x : Sys) : Sys → Prop
  /-- node `i` handles an enabled operation to completion -/
  | step (i : Nat) (op : Op) (ra : List Nat) (ord : List (List Nat)) (src : Nat) : Enabled x i op src →
      Trans x { el := stepSys x.el i op ra ord src
                sent := x.sent
                created := newCreated i (x.el.node i).log.entries ((x.el.node i).step op ra ord).log.entries op
                             ++ x.created }
  /-- node `i` dies while handling an enabled operation, after `k` storage points, and restarts; what it had
  appended to its own log and is still found on disk counts as created -/
  | crash (i : Nat) (op : Op) (ra : List Nat) (ord : List (List Nat)) (src k retain : Nat) (sor : Bool)
      (n : Node) : Enabled x i op src →
      Node.restart (C05.crashDisk (x.el.node i) op ra ord k) retain sor = some n →
      Trans x { el := { x.el with node := setNode x.el.node i n }
                sent := x.sent
                created := newCreated i (x.el.node i).log.entries n.log.entries op ++ x.created }
  /-- the leader `i` puts an append request read from its log on the wire -/
  | send (i : Nat) (q : AppendReq) : i ≠ 0 → (x.el.node i).role = .leader → ReadFrom (x.el.node i) q →
      Trans x { x with sent := q :: x.sent }

/-- at most one created entry per (index, term) -/
def Uniq (T : List CEntry) : Prop :=
  ∀ a ∈ T, ∀ b ∈ T, a.e.index = b.e.index → a.e.term = b.e.term → a = b

/-- Initial states: as `Election.Init` (every node a follower whose memory matches its disk); no snapshot
anywhere, every log starts at index 1 and is contiguous; the ledger `created` holds the entries of the
initial logs (creator 0), at most one per (index, term), every initial log is a path in it (so the initial
logs pairwise satisfy log matching — e.g. all nodes bootstrapped with the same configuration entry (1,1)),
and no initial entry has a term above any node's term. Nothing was sent yet. -/
structure Init (x : Sys) : Prop where
  el : Election.Init x.el
  sent : x.sent = []
  cr0 : ∀ c ∈ x.created, c.cr = 0
  uniq : Uniq x.created
  nodes : ∀ i, NWF (x.el.node i) ∧ Chain x.created none (x.el.node i).log.entries
  terms : ∀ c ∈ x.created, ∀ j, c.e.term ≤ (x.el.node j).term

/-- States reachable by runs in which the membership is `V` in every state. -/
inductive ReachableV (V : List Nat) : Sys → Prop
  | init (x : Sys) : Init x → FixedV V x.el → ReachableV V x
  | next (x y : Sys) : ReachableV V x → Trans x y → FixedV V y.el → ReachableV V y

/-- the election part of a run is a run of `Election` -/
theorem trans_el {x y : Sys} (h : Trans x y) : Election.Trans x.el y.el ∨ y.el = x.el := by
  cases h with
  | step i op ra ord src he => exact Or.inl (.step i op ra ord src he.id he.voteSrc he.real)
  | crash i op ra ord src k retain sor n he hn => exact Or.inl (.crash i op ra ord k retain sor n he.id hn)
  | send i q _ _ _ => exact Or.inr rfl

theorem reachable_el {V : List Nat} {x : Sys} (h : ReachableV V x) : Election.ReachableV V x.el := by
  induction h with
  | init x hi hf => exact .init _ hi.el hf
  | next x y _ ht hf ih =>
    rcases trans_el ht with h | h
    · exact .next _ _ ih h hf
    · rw [h]; exact ih

/-- The invariant. `T = created`:
* `el`: the election invariant of C01Sys;
* `nodes`: every node is well formed (`NWF`) and its log is a path in `T`;
* `uniq`: `T` holds at most one entry per (index, term);
* `sent`: every request on the wire is a slice of `T`;
* `ldrV`: a leader is a voter;
* `init0`: an initial entry's term is below the term of every candidate and leader, and not above anyone's;
* `own`: an entry created by node `l`: `l` is a voter that was backed by a majority of grants for the entry's
  term (or the quorum is one); the term is not above `l`'s; while `l` is leader of that term the entry's index
  is within `l`'s log; while `l` is candidate the term is below `l`'s. -/
structure Inv (V : List Nat) (x : Sys) : Prop where
  el : C01Sys.Inv V x.el
  nodes : ∀ i, NWF (x.el.node i) ∧ Chain x.created none (x.el.node i).log.entries
  uniq : Uniq x.created
  sent : ∀ q ∈ x.sent, ReqOK x.created q
  ldrV : ∀ i, (x.el.node i).role = .leader → i ∈ V
  init0 : ∀ c ∈ x.created, c.cr = 0 → ∀ j, c.e.term ≤ (x.el.node j).term ∧
    ((x.el.node j).role ≠ .follower → c.e.term < (x.el.node j).term)
  own : ∀ c ∈ x.created, c.cr ≠ 0 →
    c.cr ∈ V ∧ (V.length / 2 + 1 = 1 ∨ C01.Backed x.el.grants V c.cr c.e.term) ∧
    c.e.term ≤ (x.el.node c.cr).term ∧
    ((x.el.node c.cr).role = .leader → c.e.term = (x.el.node c.cr).term →
      c.e.index ≤ (x.el.node c.cr).lastLogIndex) ∧
    ((x.el.node c.cr).role = .candidate → c.e.term < (x.el.node c.cr).term)

theorem inv_init (V : List Nat) (x : Sys) (h : Init x) : Inv V x := by
  refine ⟨C01Sys.inv_init V x.el h.el, h.nodes, h.uniq, ?_, ?_, ?_, ?_⟩
  · rw [h.sent]; intro q hq; cases hq
  · intro i hi; rw [(h.el.1 i).2.2] at hi; cases hi
  · intro c hc _ j
    exact ⟨h.terms c hc j, fun hr => absurd (h.el.1 j).2.2 hr⟩
  · intro c hc hne; exact absurd (h.cr0 c hc) hne

end Replication
end Raft
