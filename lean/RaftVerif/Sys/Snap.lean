/-
The cluster-level transition system WITH local snapshots (stage 1 of the extension of `Raft.Commit` by snapshots,
compaction and snapshot installation).

`Snap.Sys` is `Commit.Sys` (Sys/Commit.lean: any number of model nodes, each performing any enabled operation of
`Node.step` at any time with any oracle; crashes at any storage point + restart from disk; append requests read from a
leader's log on the wire; the ledgers of votes, campaigns, acknowledgements, created and committed entries) plus one
ghost ledger

* `snaps` — every snapshot file a node ever had on disk, with the node's id (recorded when it appears in `snapsDisk`:
            `snapshotSink.done`, or found on disk by a restart).

What is NEW with respect to `Raft.Commit`: the operations `.snapRun` (the snapshot goroutine runs to completion:
`doTakeSnapshot` writes `(fsm.index, fsm.term, configuration, state)` and applies retention) and `.snapTaken`
(`Raft.onSnapshotTaken`: the result of the goroutine is handed to the raft goroutine) are ENABLED — together with
`.takeSnapshot`, which was enabled but inert before. From then on the node has `snapIndex > 0`:
* `onAppendEntriesRequest` skips the consistency check for `prevLogIndex ≤ snapIndex` and does not look at entries at or
  below `snapIndex`;
* a restart reads the newest snapshot file, restores the state machine from it, sets `commitIndex = snapIndex` and looks
  for configurations only above `snapIndex`.

Restrictions of this stage (`_partial`), in addition to those of `Raft.Commit` (fixed voter set `V`, fixed stable
configuration, no forged requests — see Sys/Commit.lean):
* **no compaction, no installation**: `.install` and `.shutdown` never occur, replication updates never report a
  compaction (`OpOKS`), a `.snapTaken` step is only taken when it does not compact the log (premise `hlog` of
  `Trans.step` / `Trans.crash`), and in every state of a run every log still starts at index 1 (`SideS`: `log.prev = 0`;
  this also excludes a restart that finds a log shorter than the newest snapshot and resets it);
* completed steps do not fail an assertion (`panicked = none`; a Go panic kills the process — in the model: a crash);
* every configuration entry in a log decodes (`CfgDec`, a side condition on every state like `SideV`: under the fixed
  configuration the only configuration entries are those of the initial logs);
* a restart is given `retain ≥ 1` (the option is validated by `Options.validate`).
-/
import RaftVerif.Props.C03Sys
import RaftVerif.Lemmas.SnapRelA

namespace Raft
namespace Snap
open Node Election LogRel Replication CommitRel Commit SnapRel C02Sys

/-- The operations of stage 1: everything except installing a snapshot, `shutdown` and replication updates that
report a compaction. (`LogRel.OpOK` without the clauses for `.snapRun` and `.snapTaken`.) -/
def OpOKS : Op → Prop
  | .install _ => False
  | .shutdown => False
  | .replUpdates us => NoCompact us
  | _ => True

/-- … and, as in `CommitRel.OpOK2`, no configuration change -/
def OpOK2S (op : Op) : Prop :=
  OpOKS op ∧ (∀ b, op = .newEntries b → NoCfg b) ∧ (∀ t c, op ≠ .changeConfig t c)

/-- What may be delivered to node `i`: the conditions of `Commit.Enabled` with `OpOKS` for `LogRel.OpOK`. -/
structure Enabled (x : Commit.Sys) (i : Nat) (op : Op) (src : Nat) : Prop where
  id : i ≠ 0
  voteSrc : ∀ q, op = .vote q → q.src ≠ 0
  real : Counts (x.node i) op → RealReply x.rp.el i src
  ok2 : OpOK2S op
  append : ∀ q, op = .append q → q.term < (x.node i).term ∨ q ∈ x.rp.sent
  vote : ∀ q, op = .vote q → q.term < (x.node i).term ∨
    ({ cand := q.src, term := q.term, lastIndex := q.lastLogIndex, lastTerm := q.lastLogTerm } : Camp) ∈ x.camps
  appendSrc : ∀ q, op = .append q → q.src ≠ i
  upd : ∀ us, op = .replUpdates us → ∀ u ∈ us, ∀ v, u.upd = .matchIndex v →
    v = 0 ∨ ∃ a ∈ x.acks, a.voter = u.id ∧ a.term = (x.node i).term ∧ v ≤ a.index

/-- The cluster with the ghost ledger of snapshot files. -/
structure Sys where
  cs : Commit.Sys
  /-- (node, file): every snapshot file a node ever had on disk -/
  snaps : List (Nat × SnapFile)

/-- node `i` of the cluster -/
abbrev Sys.node (x : Sys) (i : Nat) : Node := x.cs.node i

/-- the files of `post` that are not in `pre`, as entries of the ledger -/
def newSnaps (i : Nat) (pre post : List SnapFile) : List (Nat × SnapFile) :=
  (post.filter (fun f => !pre.contains f)).map (fun f => (i, f))

inductive Trans (x : Sys) : Sys → Prop
  /-- node `i` handles an enabled operation to completion, without failing an assertion; the ledgers of
  `Commit.Trans.step` are updated as there; snapshot files that appeared on disk are recorded -/
  | step (i : Nat) (op : Op) (ra : List Nat) (ord : List (List Nat)) (src : Nat) : Enabled x.cs i op src →
      ((x.node i).step op ra ord).panicked = none →
      (op = .snapTaken → ((x.node i).step op ra ord).log = (x.node i).log) →
      Trans x { cs := stepC x.cs i op ra ord src
                snaps := newSnaps i (x.node i).snapsDisk ((x.node i).step op ra ord).snapsDisk ++ x.snaps }
  /-- node `i` dies while handling an enabled operation, after `k` storage points, and restarts from what is on disk
  (log, term and vote, snapshot files) -/
  | crash (i : Nat) (op : Op) (ra : List Nat) (ord : List (List Nat)) (src k retain : Nat) (sor : Bool)
      (n : Node) : Enabled x.cs i op src → 1 ≤ retain →
      (op = .snapTaken → ((x.node i).step op ra ord).log = (x.node i).log) →
      Node.restart (C05.crashDisk (x.node i) op ra ord k) retain sor = some n →
      Trans x { cs := crashC x.cs i op n
                snaps := newSnaps i (x.node i).snapsDisk n.snapsDisk ++ x.snaps }
  /-- the leader `i` puts an append request read from its log on the wire (`Commit.Trans.send`) -/
  | send (i : Nat) (q : AppendReq) : i ≠ 0 → (x.node i).role = .leader → ReadFrom (x.node i) q →
      q.ldrCommitIndex ≤ (x.node i).commitIndex →
      Trans x { x with cs := sendC x.cs q }

/-- every configuration entry of every log decodes -/
def CfgDec (x : Commit.Sys) : Prop :=
  ∀ i, ∀ e ∈ (x.node i).log.entries, e.typ = etConfig → e.cfg.isSome = true

/-- Side condition on every state of a run: `Commit.SideV` (bootstrapped, voters `V`, stable latest configuration),
no log was compacted or reset, configuration entries decode. -/
structure SideS (V : List Nat) (x : Sys) : Prop where
  sideV : SideV V x.cs
  prev : ∀ i, (x.node i).log.prev = 0
  dec : CfgDec x.cs

/-- Initial states: those of `Raft.Commit` (in particular: no snapshot anywhere — `NWF`), `retain ≥ 1`, and an empty
snapshot ledger. -/
structure Init (x : Sys) : Prop where
  cs : Commit.Init x.cs
  retain : ∀ i, 1 ≤ (x.node i).retain
  snaps : x.snaps = []

/-- States reachable by runs in which `SideS V` holds in every state. -/
inductive ReachableS (V : List Nat) : Sys → Prop
  | init (x : Sys) : Init x → SideS V x → ReachableS V x
  | next (x y : Sys) : ReachableS V x → Trans x y → SideS V y → ReachableS V y

end Snap
end Raft
