/-
The cluster-level transition system of stage 3 (Sys/Snap3.lean: snapshots, compaction, installation) WITHOUT the
premise `TermTracked` on `.snapRun` steps: that `fsm.term` is the term of the log entry at `fsm.index` is not assumed of
a node that takes a snapshot but PROVED — the per-node invariants `C12Track.Tracks` (the state machine's cached term and
configuration are those of the applied prefix; the snapshot's term is the term of the log entry at the snapshot index)
and `Order.Ordered` are carried along the runs of the cluster (Lemmas/SnapInst4.lean: through completed steps by
`C12Track.tracks_step` / `C19Order.ordered_step`, whose hypothesis `Order.ReqOk` is discharged inside the system; through
crashes at every storage point, those of the install handler included, and restarts by `C12Track.restart_tracks`).

`Snap4.Trans` is `Snap3.Trans` without `TermTracked`.  In exchange there are three more side conditions on every state
(`Side4`), all about CONFIGURATIONS, which this fixed-membership model does not track (like `Commit.SideV`):
* `cfgord` — `configs.committed.index ≤ configs.latest.index ≤ lastLogIndex` on every node;
* `cfg`    — the hypothesis `hcfg` of `C02Sys.reqok_in_sys_partial`: the index of a node's committed configuration is not
             above its commit index, or the tree of created entries never branched at or below that index (e.g. the
             bootstrap entry (1,1) all nodes start with);
* `lab`    — the label of a node's newest snapshot file is a configuration the snapshot covers (`label.index ≤
             snapIndex`);
and the initial states are assumed to be `Tracks` and `Ordered` (nothing applied, no snapshot: `C19Sys.ex0_tracks`).
-/
import RaftVerif.Sys.Snap3
import RaftVerif.Props.C12Track

namespace Raft
namespace Snap4
open Node Election LogRel Replication CommitRel Commit C02Sys SnapRelU SnapSim Snap Snap2 SnapInst Snap3

inductive Trans (x : Snap3.Sys) : Snap3.Sys → Prop
  /-- node `i` handles an enabled operation of stage 2 to completion, without failing an assertion -/
  | step (i : Nat) (op : Op) (ra : List Nat) (ord : List (List Nat)) (src : Nat) : Snap.Enabled x.s2.cs i op src →
      ((x.node i).step op ra ord).panicked = none →
      Trans x { x with s2 := stepS x.s2 i op ra ord src }
  /-- node `i` dies while handling an enabled operation of stage 2, after `k` storage points, and restarts from what
  is on disk, which is not a stale log -/
  | crash (i : Nat) (op : Op) (ra : List Nat) (ord : List (List Nat)) (src k retain : Nat) (sor : Bool)
      (n : Node) : Snap.Enabled x.s2.cs i op src → 1 ≤ retain →
      ((x.node i).step op ra ord).panicked = none → NoCut (x.node i) op →
      staleLog (C05.crashDisk (x.node i) op ra ord k) = false →
      Node.restart (C05.crashDisk (x.node i) op ra ord k) retain sor = some n →
      Trans x { x with s2 := crashS x.s2 i op n }
  /-- the leader `i` puts an append request read from its log on the wire -/
  | send (i : Nat) (q : AppendReq) : i ≠ 0 → (x.node i).role = .leader → ReadFrom2 (x.node i) (x.vnode i) q →
      q.ldrCommitIndex ≤ (x.node i).commitIndex →
      Trans x { x with s2 := { x.s2 with cs := sendC x.s2.cs q } }
  /-- the leader `i` puts its newest snapshot on the wire -/
  | sendSnap (i : Nat) (q : InstallReq) : i ≠ 0 → (x.node i).role = .leader → SnapRead (x.node i) q →
      Trans x { x with sentSnaps := ⟨q, (x.vlog i).take q.lastIndex⟩ :: x.sentSnaps }
  /-- node `i` handles an install request to completion, without failing an assertion -/
  | install (i : Nat) (m : SnapMsg) (ra : List Nat) (ord : List (List Nat)) : i ≠ 0 →
      (m.q.term < (x.node i).term ∨ m ∈ x.sentSnaps) →
      ((x.node i).step (.install m.q) ra ord).panicked = none →
      Trans x (installS x i m ra ord)
  /-- node `i` dies while handling an install request, after `k` storage points, and restarts from what is on disk -/
  | crashInstall (i : Nat) (m : SnapMsg) (ra : List Nat) (ord : List (List Nat)) (k retain : Nat) (sor : Bool)
      (n : Node) : i ≠ 0 → (m.q.term < (x.node i).term ∨ m ∈ x.sentSnaps) → 1 ≤ retain →
      ((x.node i).step (.install m.q) ra ord).panicked = none →
      ((C05.crashDisk (x.node i) (.install m.q) ra ord k).snaps = (x.node i).snapsDisk →
        staleLog (C05.crashDisk (x.node i) (.install m.q) ra ord k) = false) →
      Node.restart (C05.crashDisk (x.node i) (.install m.q) ra ord k) retain sor = some n →
      Trans x (crashInstS x i m (C05.crashDisk (x.node i) (.install m.q) ra ord k) n)

/-- Side condition on every state of a run: `Snap3.Side3` and three conditions on configurations. -/
structure Side4 (V : List Nat) (x : Snap3.Sys) : Prop where
  side : Side3 V x
  cfgord : ∀ i, (x.node i).configs.committed.index ≤ (x.node i).configs.latest.index ∧
    (x.node i).configs.latest.index ≤ (x.node i).lastLogIndex
  cfg : ∀ i, (x.node i).configs.committed.index ≤ (x.node i).commitIndex ∨
    ∀ c ∈ x.s2.cs.T, ∀ d ∈ x.s2.cs.T, c.e.index = d.e.index → c.e.index ≤ (x.node i).configs.committed.index →
      c.e.term = d.e.term
  lab : ∀ i, (Track.label (x.node i)).index ≤ (x.node i).snapIndex

/-- Initial states: those of stage 3; every node satisfies the per-node invariants. -/
structure Init4 (x : Snap3.Sys) : Prop where
  init : Snap3.Init x
  tracks : ∀ i, C12Track.Tracks (x.node i)
  ord : ∀ i, Order.Ordered (x.node i)

/-- States reachable by runs in which `Side4 V` holds in every state. -/
inductive Reachable4 (V : List Nat) : Snap3.Sys → Prop
  | init (x : Snap3.Sys) : Init4 x → Side4 V x → Reachable4 V x
  | next (x y : Snap3.Sys) : Reachable4 V x → Trans x y → Side4 V y → Reachable4 V y

end Snap4
end Raft
