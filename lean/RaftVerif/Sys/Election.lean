/-
A cluster-level transition system for elections: any number of model nodes (`Raft.Node`), each performing
ANY operation of `Node.step` with ANY oracle and input at any time (so: arbitrary delay, reordering,
duplication, loss and forgery of requests), crashing at any storage point of any step and restarting from
disk; plus ghost ledgers that record what was acknowledged:

* `grants`  — every vote request answered `success` (voter, requested term, candidate) and every self vote
              (a node's durable vote moving to itself in a higher term: `candidate.startElection`);
* `counted` — every success response a candidate counted (candidate, its term, voter);
* `won`     — every (node, term) in which a node was leader at the end of one of its steps.

The ONLY constraint on the environment: a vote RESPONSE that a candidate counts (`Counts`: the node is
candidate, the response carries no error, a term not above the candidate's and `success`) stands for a real
reply of the current election (`RealReply`): it comes from another voter of the candidate's latest
configuration, that voter has granted its vote to this candidate for the candidate's current term, and it was
not counted before in this election. This is what `candidate.startElection` implements in Go by asking every
voter once per election over a channel created for that election (responses of older elections are never
delivered to the new one); it is a modelling assumption about that part of the code, not a theorem.
Vote REQUESTS are unconstrained, except that they name a non-zero candidate id (`Raft.New` rejects id 0).
-/
import RaftVerif.Props.C01
import RaftVerif.Lemmas.RoleRel

namespace Raft
namespace Election
open Node

/-- The cluster: node `i` is the process with node id `i` (id 0 is not a node: its transitions are disabled). -/
structure Sys where
  node : Nat → Node
  grants : List C01.Grant
  /-- (candidate, term, voter) -/
  counted : List (Nat × Nat × Nat)
  /-- (leader, term) -/
  won : List (Nat × Nat)

def setNode (f : Nat → Node) (i : Nat) (n : Node) : Nat → Node := fun j => if j = i then n else f j

theorem setNode_same (f : Nat → Node) (i : Nat) (n : Node) : setNode f i n i = n := by
  unfold setNode; rw [if_pos rfl]

theorem setNode_other (f : Nat → Node) (i j : Nat) (n : Node) (h : j ≠ i) : setNode f i n j = f j := by
  unfold setNode; rw [if_neg h]

/-- the grant acknowledged by a vote request step: the reply carries `success` -/
def voteGrant (i : Nat) (op : Op) (post : Node) : List C01.Grant :=
  match C05.grantOf op post with
  | some x => [{ voter := i, term := x.1, cand := x.2 }]
  | none => []

/-- the self vote: during the step the node's vote moved to itself in a higher term -/
def selfGrant (i : Nat) (pre post : Node) : List C01.Grant :=
  if post.term > pre.term ∧ post.votedFor = i then [{ voter := i, term := post.term, cand := i }] else []

/-- the response counted by candidate `i` (state `pre`), attributed to voter `src` -/
def countedBy (i : Nat) (pre : Node) (op : Op) (src : Nat) : List (Nat × Nat × Nat) :=
  match op with
  | .voteResult false tm res =>
    if pre.role = .candidate ∧ tm ≤ pre.term ∧ res = rSuccess then [(i, pre.term, src)] else []
  | _ => []

theorem countedBy_counts (i : Nat) (pre : Node) (op : Op) (src : Nat) (h : Counts pre op) :
    countedBy i pre op src = [(i, pre.term, src)] := by
  obtain ⟨hr, tm, hle, rfl⟩ := h
  unfold countedBy
  dsimp only
  rw [if_pos ⟨hr, hle, rfl⟩]

theorem countedBy_not (i : Nat) (pre : Node) (op : Op) (src : Nat) (h : ¬ Counts pre op) :
    countedBy i pre op src = [] := by
  unfold countedBy
  split
  · rename_i tm res
    split
    · rename_i hc
      exact absurd ⟨hc.1, tm, hc.2.1, by rw [hc.2.2]⟩ h
    · rfl
  · rfl

/-- Node `i` handles `op` to completion; the ledgers record what it acknowledged. -/
def stepSys (x : Sys) (i : Nat) (op : Op) (ra : List Nat) (ord : List (List Nat)) (src : Nat) : Sys :=
  { node := setNode x.node i ((x.node i).step op ra ord)
    grants := voteGrant i op ((x.node i).step op ra ord) ++
              (selfGrant i (x.node i) ((x.node i).step op ra ord) ++ x.grants)
    counted := countedBy i (x.node i) op src ++ x.counted
    won := (if ((x.node i).step op ra ord).role = .leader then [(i, ((x.node i).step op ra ord).term)] else [])
             ++ x.won }

/-- A counted response is a real reply of candidate `i`'s current election, from voter `src`. -/
def RealReply (x : Sys) (i src : Nat) : Prop :=
  src ≠ i ∧ (x.node i).configs.latest.isVoter src = true ∧
  ({ voter := src, term := (x.node i).term, cand := i } : C01.Grant) ∈ x.grants ∧
  (i, (x.node i).term, src) ∉ x.counted

inductive Trans (x : Sys) : Sys → Prop
  /-- node `i` handles any operation with any oracles; `src` is the sender the transport attributes a vote
  response to (irrelevant for every other operation) -/
  | step (i : Nat) (op : Op) (ra : List Nat) (ord : List (List Nat)) (src : Nat) :
      i ≠ 0 → (∀ q, op = .vote q → q.src ≠ 0) → (Counts (x.node i) op → RealReply x i src) →
      Trans x (stepSys x i op ra ord src)
  /-- node `i` dies while handling `op`, after `k` storage points (`k = 0`: it just dies), and restarts from
  what is on disk with any options; nothing is acknowledged -/
  | crash (i : Nat) (op : Op) (ra : List Nat) (ord : List (List Nat)) (k retain : Nat) (sor : Bool) (n : Node) :
      i ≠ 0 → Node.restart (C05.crashDisk (x.node i) op ra ord k) retain sor = some n →
      Trans x { x with node := setNode x.node i n }

/-- Initial states: node `i` has id `i`, what it has in memory is what is on disk, nobody is candidate or
leader, nothing was acknowledged yet. Terms, votes, logs and configurations are arbitrary. -/
def Init (x : Sys) : Prop :=
  (∀ i, (x.node i).nid = i ∧ C05.VoteWF (x.node i) ∧ (x.node i).role = .follower) ∧
  x.grants = [] ∧ x.counted = [] ∧ x.won = []

/-- Fixed membership: every node is bootstrapped and the voters of its latest configuration are `V`. -/
def FixedV (V : List Nat) (x : Sys) : Prop :=
  ∀ i, (x.node i).configs.isBootstrapped = true ∧ (x.node i).configs.latest.voters = V

/-- States reachable by runs in which the membership is `V` in every state. -/
inductive ReachableV (V : List Nat) : Sys → Prop
  | init (x : Sys) : Init x → FixedV V x → ReachableV V x
  | next (x y : Sys) : ReachableV V x → Trans x y → FixedV V y → ReachableV V y

/-- the voters candidate `i` has counted in term `t` -/
def votersCounted (c : List (Nat × Nat × Nat)) (i t : Nat) : List Nat :=
  (c.filter (fun e => e.1 == i && e.2.1 == t)).map (·.2.2)

/-! ### node-level facts used by the system proof -/

/-- the node id, also at every crash point of the step -/
def NidInv (n : Nat) (s : Node) : Prop := s.nid = n ∧ ∀ p ∈ s.trace, p.2.nid = n

theorem nid_congr {n : Nat} {s s' : Node} (h : NidInv n s) (e1 : s'.nid = s.nid) (e2 : s'.trace = s.trace) :
    NidInv n s' := by
  unfold NidInv at *; rw [e1, e2]; exact h

theorem nid_point {n : Nat} (s : Node) (name : String) (h : NidInv n s) : NidInv n (s.point name) := by
  refine ⟨h.1, fun p hp => ?_⟩
  simp only [Node.point, List.mem_append, List.mem_singleton] at hp
  rcases hp with hp | hp
  · exact h.2 p hp
  · subst hp; exact h.1

theorem nid_storeTermVote {n : Nat} (s : Node) (t c : Nat) (h : NidInv n s) : NidInv n (s.storeTermVote t c) := by
  unfold Node.storeTermVote
  split
  · exact nid_congr h rfl rfl
  · exact nid_congr (nid_point _ "value.set" (nid_congr (s' := { s with durTerm := t, durVote := c }) h rfl rfl)) rfl rfl

theorem nid_panic {n : Nat} (s : Node) (site : String) (h : NidInv n s) : NidInv n (s.panic site) := by
  refine nid_congr h ?_ ?_ <;> (unfold Node.panic; split <;> rfl)

theorem nid_setVotedFor {n : Nat} (s : Node) (t c : Nat) (h : NidInv n s) : NidInv n (s.setVotedFor t c) := by
  unfold Node.setVotedFor
  split
  · split
    · exact nid_storeTermVote _ _ _ h
    · exact nid_panic _ _ h
  · exact h

theorem nid_closed (n : Nat) : StepClosed (NidInv n) where
  panic := fun s site h => nid_panic s site h
  reply := fun s t r h => by
    refine nid_congr h ?_ ?_ <;> (unfold Node.reply; split <;> rfl)
  point := fun s name h => nid_point s name h
  ldr := fun s l h => nid_congr h rfl rfl
  append := fun s e r h => nid_congr h rfl rfl
  commitN := fun s k h => nid_congr h rfl rfl
  fsm := fun s f h => nid_congr h rfl rfl
  changeConfigR := fun s c h => by
    refine nid_congr h ?_ ?_ <;> (unfold Node.changeConfigR; dsimp only; split <;> rfl)
  setCommitIndexR := fun s i h _ => by
    refine nid_congr h ?_ ?_ <;>
      (unfold Node.setCommitIndexR Node.afterConfigCommit Node.closeIfRemoved Node.stepDownIfNotVoter Node.commitConfig Node.doClose; dsimp only; repeat' split) <;> rfl
  popOrder := fun s h => nid_congr h rfl rfl
  begin := fun s ra ord h => ⟨h.1, by simp [Node.begin]⟩
  rpcReply := fun s r h => nid_congr h rfl rfl
  ret := fun s r h => nid_congr h rfl rfl
  setRole := fun s r h => nid_congr h rfl rfl
  setLeader := fun s l h => nid_congr h rfl rfl
  doClose := fun s r h => by
    refine nid_congr h ?_ ?_ <;> (unfold Node.doClose; split <;> rfl)
  setTerm := fun s t h => by
    unfold Node.setTerm
    split
    · split
      · exact nid_storeTermVote _ _ _ h
      · exact nid_panic _ _ h
    · exact h
  voteNewTerm := fun s t c h _ => nid_setVotedFor s t c h
  voteGrant := fun s c h _ => nid_setVotedFor s _ c h
  votesNeeded := fun s v h => nid_congr h rfl rfl
  candTransfer := fun s v h => nid_congr h rfl rfl
  removeGTE := fun s i pt h => nid_congr h rfl rfl
  removeLTE := fun s i h => nid_congr h rfl rfl
  clearLog := fun s h => nid_congr h rfl rfl
  revertConfig := fun s h => nid_congr h rfl rfl
  commitConfig := fun s h => by
    refine nid_congr h ?_ ?_ <;> (unfold Node.commitConfig; dsimp only; split <;> rfl)
  publishSnapshot := fun s f h => by
    unfold Node.publishSnapshot
    extract_lets s1 s2
    have h1 : NidInv n s1 := nid_point _ _ (nid_congr h rfl rfl)
    have h2 : NidInv n s2 := nid_congr h1 rfl rfl
    exact nid_point _ _ (nid_congr h2 rfl rfl)
  installCommit := fun s h _ => nid_congr h rfl rfl
  snapPending := fun s v h => nid_congr h rfl rfl
  snapResult := fun s v h => nid_congr h rfl rfl
  bootstrapLast := fun s i t h => nid_congr h rfl rfl

/-- whatever is on disk when the process dies carries the node's id -/
theorem crashDisk_nid (s : Node) (op : Op) (ra : List Nat) (ord : List (List Nat)) (k : Nat) :
    (C05.crashDisk s op ra ord k).nid = s.nid := by
  have h : NidInv s.nid (s.step op ra ord) := by
    have h0 : NidInv s.nid (s.begin ra ord) := ⟨rfl, by simp [Node.begin]⟩
    have h1 := (nid_closed s.nid).handle_inv _ op h0
    unfold Node.step
    dsimp only
    split
    · exact h1
    · exact (nid_closed s.nid).settle_inv _ _ _ h1
  cases k with
  | zero => rfl
  | succ k =>
    simp only [C05.crashDisk]
    split
    · rename_i p hp
      exact h.2 p (List.mem_of_getElem? hp)
    · exact h.1

/-- a restarted node is a follower with the id found on disk -/
theorem restart_role_nid (d : Durable) (retain : Nat) (sor : Bool) (n : Node)
    (h : Node.restart d retain sor = some n) : n.role = .follower ∧ n.nid = d.nid := by
  unfold Node.restart at h
  split at h
  · cases h
  · split at h
    · cases h
    · injection h with h
      subst h
      have e : ∀ x : Node, (x.fsmRestore.withCommitIndex x.snapIndex).role = x.role ∧
          (x.fsmRestore.withCommitIndex x.snapIndex).nid = x.nid := by
        intro x
        unfold Node.fsmRestore Node.withCommitIndex Node.panic Node.withFsm
        refine ⟨?_, ?_⟩ <;> (repeat' split) <;> rfl
      split
      · obtain ⟨e1, e2⟩ := e (Node.restartNode d retain sor)
        rw [e1, e2]
        exact ⟨rfl, rfl⟩
      · exact ⟨rfl, rfl⟩

/-- what the disk holds when the process dies during a step is a legal successor of the (term, vote) the
step started from -/
theorem crashDisk_durStep (s : Node) (op : Op) (ra : List Nat) (ord : List (List Nat)) (k : Nat)
    (hwf : C05.VoteWF s) : C05.DurStep s (C05.crashDisk s op ra ord k) := by
  obtain ⟨hvs, hwf', htr⟩ := C05.step_vote_stable s op ra ord hwf
  cases k with
  | zero =>
    simp only [C05.crashDisk, Node.durable, C05.DurStep]
    rw [hwf.1, hwf.2]; exact ⟨Nat.le_refl _, fun _ _ => rfl⟩
  | succ k =>
    simp only [C05.crashDisk]
    split
    · rename_i p hp
      exact htr p (List.mem_of_getElem? hp)
    · simp only [Node.durable, C05.DurStep]
      rw [hwf'.1, hwf'.2]; exact hvs

/-- a vote granted in a step agrees with the vote the node had cast in that term before the step -/
theorem vote_grant_agrees (s : Node) (q : VoteReq) (ra : List Nat) (ord : List (List Nat)) (hwf : C05.VoteWF s)
    (h : ((s.step (.vote q) ra ord).rpcReply.map (·.result)) = some rSuccess) :
    q.term ≥ s.term ∧ (q.term = s.term → s.votedFor ≠ 0 → q.src = s.votedFor) := by
  have hsh := C05.vote_step_shape s q ra ord h
  obtain ⟨hqge, _⟩ := C05.onVoteRequest_success (s.begin ra ord) q hsh
  have hqge' : q.term ≥ s.term := hqge
  have hb : C05.VoteWF (s.begin ra ord) := hwf
  obtain ⟨e1, e2, _, _⟩ := C05.grant_is_durable (s.begin ra ord) q hb hsh
  have hx := ((C05.closed (s.begin ra ord)).onVoteRequest_inv _ q (C05.inv_refl _ hb)).1
  refine ⟨hqge', fun heq hv => ?_⟩
  have h1 : ((s.begin ra ord).onVoteRequest q).term = (s.begin ra ord).term := by
    rw [e1]; show q.term = s.term; exact heq
  have h2 := hx.2 h1 hv
  rw [e2] at h2
  exact h2

end Election
end Raft
