/-
The cluster-level transition system of stage 3 (Sys/Snap3.lean: local snapshots, log compaction, installation of
snapshots) WITH THE STALE RESET AND THE CUT: the crash transitions assume NEITHER that `openStorage` finds a log that is
not stale NOR `Snap3.NoCut` (that the process does not die while an append request overwrites the uncommitted first entry
directly behind an installed snapshot).

`Snap6.Trans` is `Snap3.Trans` (same states `Snap3.Sys`, same ledgers, same ghost record `base`) except for
* `Trans.crash` — NO premise `staleLog (crashDisk …) = false` and NO premise `NoCut`: node `i` dies at any storage point of
  any operation of stage 2 — also between `RemoveGTE`, which empties a log that starts at its snapshot index, the appends
  and `commitLog` of `onAppendEntriesRequest` — and restarts from what is on disk; if the log on disk is stale with
  respect to the newest snapshot file on disk (`Node.staleLog`: it ends below the file's index — e.g. the node took a snapshot at its commit index while its flushed
  index was lower, `C10Sys2.stale_log_after_own_snapshot` —, or holds an entry of another term there) the restart RESETS
  the log to that file.  The state after the transition is the same `Snap2.crashS`: the ghost record `base i` becomes
  the first `n.log.prev` entries of the old virtual log — for a reset log the COMMITTED PREFIX the file stands for;
* `Trans.crashInstall` — NO premise "a disk with the OLD snapshot files is not stale"; `base i` becomes the prefix of the
  request if the disk holds the received file, else the first `n.log.prev` entries of the old virtual log (`crashInstS6`;
  this is `Snap3.crashInstS` whenever the log is not reset).

All other restrictions of Sys/Snap3.lean are kept (fixed voter set, no forged requests, no `.shutdown`, no compaction
reports, `retain ≥ 1`, completed steps do not fail an assertion, side conditions `Side3`, `TermTracked` for `.snapRun` —
the last one is dropped in `TransT` / `Reachable6T` at the end of this file).
-/
import RaftVerif.Sys.Snap4

namespace Raft
namespace Snap6
open Node Election LogRel Replication CommitRel Commit C02Sys SnapRelU SnapSim Snap Snap2 SnapInst Snap3 Snap4

/-- the state after node `i` died while handling the install request of `m` and restarted as `n` from the disk `d`:
`base i` is the prefix the request stands for if the disk holds the received file, else what the log of `n` no longer
holds of the old virtual log -/
def crashInstS6 (x : Snap3.Sys) (i : Nat) (m : SnapMsg) (d : Durable) (n : Node) : Snap3.Sys :=
  replS x i n (if d.snaps.head? = some (C09.fileOf m.q) ∧ Installs (x.node i) m.q then m.pre
    else newBase x.s2 i n.log.prev)

inductive Trans (x : Snap3.Sys) : Snap3.Sys → Prop
  /-- node `i` handles an enabled operation of stage 2 to completion, without failing an assertion -/
  | step (i : Nat) (op : Op) (ra : List Nat) (ord : List (List Nat)) (src : Nat) : Snap.Enabled x.s2.cs i op src →
      ((x.node i).step op ra ord).panicked = none → TermTracked (x.node i) op →
      Trans x { x with s2 := stepS x.s2 i op ra ord src }
  /-- node `i` dies while handling an enabled operation of stage 2, after `k` storage points, and restarts from what
  is on disk — a stale log is reset to the newest snapshot file -/
  | crash (i : Nat) (op : Op) (ra : List Nat) (ord : List (List Nat)) (src k retain : Nat) (sor : Bool)
      (n : Node) : Snap.Enabled x.s2.cs i op src → 1 ≤ retain →
      ((x.node i).step op ra ord).panicked = none → TermTracked (x.node i) op →
      Node.restart (C05.crashDisk (x.node i) op ra ord k) retain sor = some n →
      Trans x { x with s2 := crashS x.s2 i op n }
  /-- the leader `i` puts an append request read from its log on the wire -/
  | send (i : Nat) (q : AppendReq) : i ≠ 0 → (x.node i).role = .leader → ReadFrom2 (x.node i) (x.vnode i) q →
      q.ldrCommitIndex ≤ (x.node i).commitIndex →
      Trans x { x with s2 := { x.s2 with cs := sendC x.s2.cs q } }
  /-- the leader `i` puts its newest snapshot on the wire -/
  | sendSnap (i : Nat) (q : InstallReq) : i ≠ 0 → (x.node i).role = .leader → SnapRead (x.node i) q →
      Trans x { x with sentSnaps := ⟨q, (x.vlog i).take q.lastIndex⟩ :: x.sentSnaps }
  /-- node `i` handles an install request to completion, without failing an assertion -/
  | install (i : Nat) (m : SnapMsg) (ra : List Nat) (ord : List (List Nat)) : i ≠ 0 →
      (m.q.term < (x.node i).term ∨ m ∈ x.sentSnaps) →
      ((x.node i).step (.install m.q) ra ord).panicked = none →
      Trans x (installS x i m ra ord)
  /-- node `i` dies while handling an install request, after `k` storage points, and restarts from what is on disk — a
  stale log is reset to the newest snapshot file (the received one, or the newest old one) -/
  | crashInstall (i : Nat) (m : SnapMsg) (ra : List Nat) (ord : List (List Nat)) (k retain : Nat) (sor : Bool)
      (n : Node) : i ≠ 0 → (m.q.term < (x.node i).term ∨ m ∈ x.sentSnaps) → 1 ≤ retain →
      ((x.node i).step (.install m.q) ra ord).panicked = none →
      Node.restart (C05.crashDisk (x.node i) (.install m.q) ra ord k) retain sor = some n →
      Trans x (crashInstS6 x i m (C05.crashDisk (x.node i) (.install m.q) ra ord k) n)

/-- States reachable by runs in which `Side3 V` holds in every state (initial states: those of stage 3). -/
inductive Reachable6 (V : List Nat) : Snap3.Sys → Prop
  | init (x : Snap3.Sys) : Snap3.Init x → Side3 V x → Reachable6 V x
  | next (x y : Snap3.Sys) : Reachable6 V x → Trans x y → Side3 V y → Reachable6 V y

/-! ### without the premise `TermTracked` (as Sys/Snap4.lean does for Sys/Snap3.lean)

`TransT` is `Trans` without `TermTracked`: that `fsm.term` is the term of the log entry at `fsm.index` is not assumed of a
node that takes a snapshot but PROVED — the per-node invariants `C12Track.Tracks` / `Order.Ordered` are carried along the runs
(Lemmas/SnapCutG.lean), through stale resets and the cut too; in exchange the states satisfy the three side conditions on
configurations of `Snap4.Side4` and the initial states the per-node invariants (`Snap4.Init4`). -/

inductive TransT (x : Snap3.Sys) : Snap3.Sys → Prop
  /-- node `i` handles an enabled operation of stage 2 to completion, without failing an assertion -/
  | step (i : Nat) (op : Op) (ra : List Nat) (ord : List (List Nat)) (src : Nat) : Snap.Enabled x.s2.cs i op src →
      ((x.node i).step op ra ord).panicked = none →
      TransT x { x with s2 := stepS x.s2 i op ra ord src }
  /-- node `i` dies while handling an enabled operation of stage 2, after `k` storage points, and restarts from what
  is on disk — a stale log is reset to the newest snapshot file -/
  | crash (i : Nat) (op : Op) (ra : List Nat) (ord : List (List Nat)) (src k retain : Nat) (sor : Bool)
      (n : Node) : Snap.Enabled x.s2.cs i op src → 1 ≤ retain →
      ((x.node i).step op ra ord).panicked = none →
      Node.restart (C05.crashDisk (x.node i) op ra ord k) retain sor = some n →
      TransT x { x with s2 := crashS x.s2 i op n }
  /-- the leader `i` puts an append request read from its log on the wire -/
  | send (i : Nat) (q : AppendReq) : i ≠ 0 → (x.node i).role = .leader → ReadFrom2 (x.node i) (x.vnode i) q →
      q.ldrCommitIndex ≤ (x.node i).commitIndex →
      TransT x { x with s2 := { x.s2 with cs := sendC x.s2.cs q } }
  /-- the leader `i` puts its newest snapshot on the wire -/
  | sendSnap (i : Nat) (q : InstallReq) : i ≠ 0 → (x.node i).role = .leader → SnapRead (x.node i) q →
      TransT x { x with sentSnaps := ⟨q, (x.vlog i).take q.lastIndex⟩ :: x.sentSnaps }
  /-- node `i` handles an install request to completion, without failing an assertion -/
  | install (i : Nat) (m : SnapMsg) (ra : List Nat) (ord : List (List Nat)) : i ≠ 0 →
      (m.q.term < (x.node i).term ∨ m ∈ x.sentSnaps) →
      ((x.node i).step (.install m.q) ra ord).panicked = none →
      TransT x (installS x i m ra ord)
  /-- node `i` dies while handling an install request, after `k` storage points, and restarts from what is on disk -/
  | crashInstall (i : Nat) (m : SnapMsg) (ra : List Nat) (ord : List (List Nat)) (k retain : Nat) (sor : Bool)
      (n : Node) : i ≠ 0 → (m.q.term < (x.node i).term ∨ m ∈ x.sentSnaps) → 1 ≤ retain →
      ((x.node i).step (.install m.q) ra ord).panicked = none →
      Node.restart (C05.crashDisk (x.node i) (.install m.q) ra ord k) retain sor = some n →
      TransT x (crashInstS6 x i m (C05.crashDisk (x.node i) (.install m.q) ra ord k) n)

/-- States reachable by runs of `TransT` in which `Snap4.Side4 V` holds in every state (initial states: `Snap4.Init4`). -/
inductive Reachable6T (V : List Nat) : Snap3.Sys → Prop
  | init (x : Snap3.Sys) : Init4 x → Side4 V x → Reachable6T V x
  | next (x y : Snap3.Sys) : Reachable6T V x → TransT x y → Side4 V y → Reachable6T V y

end Snap6
end Raft
