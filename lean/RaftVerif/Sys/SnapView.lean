/-
The report protocol of the leader's delayed compaction, in isolation (leader.go `notifyFlr` / `checkReplUpdates` case
`removeLTE` / `checkLogCompact` / `addReplication`, fsm.go `onSnapshotTaken`, replication.go `onLeaderUpdate`).

State (`PState`): of the leader goroutine the wanted first index `R = ldr.removeLTE`, the first index `P = log.prev`,
the replications `ids` and what each status records as reported (`st j = status.removeLTE`); of the replication
goroutine `j` (GHOST — the leader cannot see it) the first index of the log view it reads through
(`view j = r.log.PrevIndex()`); between them the update waiting in `leaderUpdateCh` (capacity 1, the leader replaces a
waiting update: `chan j`, the first index of the view it carries) and the reports waiting in `replUpdateCh` (`q`, ONE
channel for all replications, oldest first: the ledger of reports).

Transitions (`PTrans mono chg`), with two parameters:
  `chg`  — the REPORT RULE of `replication.onLeaderUpdate`: `true` = a report whenever the first index of the view
           CHANGES (the code after the repair of finding F19, Model/Repl.lean); `false` = only when it GROWS (the
           original code);
  `mono` — `true`: `onSnapshotTaken` never LOWERS the bound (not what the code does; the alternative repair).
* `setR r`    — `onSnapshotTaken` records a new bound and notifies every replication (`ldr.removeLTE = canCompact`,
                or `= log.prev`; `notifyFlr`).  Any `r` (lower or higher), unless `mono`.
* `notify J`  — any other `notifyFlr` (new entries, new commit index): a view starting at the current bound.
* `consume j` — the goroutine takes the waiting update: it sends the report (rule `chg`) and THEN replaces its view
                (`r.notifyLdr(removeLTE{…}); r.log = u.log`: when the view has moved, the report is in the channel).
* `deliver`   — the leader takes the oldest report: `status.removeLTE = u.val`.
* `compact p` — `checkLogCompact`, at the end of `checkReplUpdates`: the leader has taken EVERY waiting report
                (`q = []`: the loop of `checkReplUpdates` drains the channel), `P < R`, every status holds
                `removeLTE ≥ R`; the log is compacted to some `p ≤ R` (`Log.RemoveLTE(R)` removes whole segments).
                (Between the draining and the compaction a goroutine can only take an update that carries a view starting
                at `R` — invariant `j2` of `QInv` —, which the compaction does not hurt: `compact_keeps_views`, part 3.)
* `add j`     — `addReplication`: status and view start at `R`; reports of an earlier goroutine for `j` are ignored
                (`status.removed`).
* `remove j`  — the replication is stopped.
The compaction `onSnapshotTaken` performs AT ONCE (`nowCompact`) is not governed by views but by the match indexes
(`C09`: never beyond any replication's match index) and is not part of this protocol.

Results (restated in Props/C09Sys4.lean):
* `qinv_reach` — REPAIRED rule (`chg = true`), bound raised and lowered at will: for every replication the newest report
  still waiting — or, if none waits, the status — IS the first index of the goroutine's view; a waiting update carries
  the current bound.  Hence a compaction leaves `P ≤ view j` for every replication.
* `pinv_reach` — ORIGINAL rule, bound never lowered: every status is at or below its goroutine's view; same conclusion.
* `ex_run`     — ORIGINAL rule, bound lowered (what `onSnapshotTaken` does): a compaction beyond the first index of a
  view in use (finding F19).
-/
import RaftVerif.Model.Repl

namespace Raft
namespace SnapView

/-- function update -/
def upd {α : Type} (f : Nat → α) (j : Nat) (v : α) : Nat → α := fun k => if k = j then v else f k

structure PState where
  /-- `ldr.removeLTE` -/
  R : Nat
  /-- `log.PrevIndex()` of the leader's log -/
  P : Nat
  /-- the replications -/
  ids : List Nat
  /-- `status.removeLTE` of replication `j` -/
  st : Nat → Nat
  /-- GHOST: `r.log.PrevIndex()` of the replication goroutine `j` -/
  view : Nat → Nat
  /-- the update waiting in `leaderUpdateCh` of `j`: the first index of its view -/
  chan : Nat → Option Nat
  /-- the `removeLTE` reports waiting in `replUpdateCh`, oldest first -/
  q : List (Nat × Nat)

/-- `replication.onLeaderUpdate` reports the first index `p` of the new view: whenever it differs from the old one
(`chg`, the repaired code), or only when it is above it (the original code) -/
def reports (chg : Bool) (old p : Nat) : Bool := if chg then p != old else decide (p > old)

inductive PTrans (mono chg : Bool) (x : PState) : PState → Prop
  | setR (r : Nat) : (mono = true → x.R ≤ r) → PTrans mono chg x { x with R := r, chan := fun _ => some r }
  | notify (J : Nat → Bool) : PTrans mono chg x { x with chan := fun j => if J j then some x.R else x.chan j }
  | consume (j p : Nat) : x.chan j = some p →
      PTrans mono chg x { x with view := upd x.view j p, chan := upd x.chan j none,
                                 q := x.q ++ (if reports chg (x.view j) p then [(j, p)] else []) }
  | deliver (j v : Nat) (rest : List (Nat × Nat)) : x.q = (j, v) :: rest →
      PTrans mono chg x { x with st := upd x.st j v, q := rest }
  | compact (p : Nat) : x.q = [] → x.P < x.R → (∀ j ∈ x.ids, x.R ≤ x.st j) → x.P ≤ p → p ≤ x.R →
      PTrans mono chg x { x with P := p }
  | add (j : Nat) : j ∉ x.ids →
      PTrans mono chg x { x with ids := j :: x.ids, st := upd x.st j x.R, view := upd x.view j x.R,
                                 chan := upd x.chan j none, q := x.q.filter (fun e => e.1 != j) }
  | remove (j : Nat) : PTrans mono chg x { x with ids := x.ids.erase j }

/-- `leader.init`: bound, statuses and views start at the first index of the log; nothing is waiting -/
structure PInit (x : PState) : Prop where
  r : x.R = x.P
  st : ∀ j, x.st j = x.R
  view : ∀ j, x.view j = x.R
  chan : ∀ j, x.chan j = none
  q : x.q = []

inductive PReach (mono chg : Bool) : PState → Prop
  | init (x : PState) : PInit x → PReach mono chg x
  | next (x y : PState) : PReach mono chg x → PTrans mono chg x y → PReach mono chg y

/-! ### the repaired rule: every change of the view is reported -/

/-- what the status of `j` will hold when the leader has taken every waiting report: the newest waiting report for `j`,
else `d` (what it holds now) -/
def latest : List (Nat × Nat) → Nat → Nat → Nat
  | [], _, d => d
  | e :: rest, j, d => latest rest j (if e.1 = j then e.2 else d)

theorem latest_append (q : List (Nat × Nat)) (e : Nat × Nat) (j d : Nat) :
    latest (q ++ [e]) j d = if e.1 = j then e.2 else latest q j d := by
  induction q generalizing d with
  | nil => rfl
  | cons a q ih => exact ih _

theorem latest_filter_ne (q : List (Nat × Nat)) (k j d : Nat) (h : j ≠ k) :
    latest (q.filter (fun e => e.1 != k)) j d = latest q j d := by
  induction q generalizing d with
  | nil => rfl
  | cons a q ih =>
    rw [List.filter_cons]
    by_cases ha : a.1 = k
    · have hb : (a.1 != k) = false := by simp [ha]
      rw [hb]
      simp only [Bool.false_eq_true, if_false]
      show _ = latest q j (if a.1 = j then a.2 else d)
      rw [if_neg (by rw [ha]; exact fun e => h e.symm)]
      exact ih d
    · have hb : (a.1 != k) = true := by simp [ha]
      rw [hb]
      simp only [if_true]
      exact ih _

theorem latest_filter_self (q : List (Nat × Nat)) (k d : Nat) :
    latest (q.filter (fun e => e.1 != k)) k d = d := by
  induction q generalizing d with
  | nil => rfl
  | cons a q ih =>
    rw [List.filter_cons]
    by_cases ha : a.1 = k
    · have hb : (a.1 != k) = false := by simp [ha]
      rw [hb]
      simp only [Bool.false_eq_true, if_false]
      exact ih d
    · have hb : (a.1 != k) = true := by simp [ha]
      rw [hb]
      simp only [if_true]
      show latest _ k (if a.1 = k then a.2 else d) = d
      rw [if_neg ha]
      exact ih d

/-- the invariant of the protocol with the repaired report rule -/
structure QInv (x : PState) : Prop where
  /-- a waiting update carries a view that starts at the current bound -/
  j2 : ∀ j p, x.chan j = some p → p = x.R
  /-- the newest waiting report of a replication — its status if none waits — is the first index of the view its
  goroutine holds -/
  j3 : ∀ j ∈ x.ids, latest x.q j (x.st j) = x.view j

theorem qinv_init {x : PState} (h : PInit x) : QInv x := by
  refine ⟨fun j p hp => ?_, fun j _ => ?_⟩
  · rw [h.chan j] at hp; cases hp
  · rw [h.q, h.st j, h.view j]; rfl

theorem qinv_trans {mono : Bool} {x y : PState} (hI : QInv x) (ht : PTrans mono true x y) : QInv y := by
  obtain ⟨j2, j3⟩ := hI
  cases ht with
  | setR r hr =>
    refine ⟨fun j p hp => ?_, j3⟩
    injection hp with hp
    exact hp.symm
  | notify J =>
    refine ⟨fun j p hp => ?_, j3⟩
    dsimp only at hp
    split at hp
    · injection hp with hp; exact hp.symm
    · exact j2 j p hp
  | consume j p hc =>
    refine ⟨fun k p' hp' => ?_, fun k hk => ?_⟩
    · have hp'' : upd x.chan j none k = some p' := hp'
      unfold upd at hp''
      split at hp''
      · cases hp''
      · exact j2 k p' hp''
    · show latest (x.q ++ (if reports true (x.view j) p then [(j, p)] else [])) k (x.st k) = upd x.view j p k
      have hr : reports true (x.view j) p = (p != x.view j) := rfl
      rw [hr]
      by_cases hpv : p = x.view j
      · have : (p != x.view j) = false := by simp [hpv]
        rw [this]
        simp only [Bool.false_eq_true, if_false, List.append_nil]
        rw [j3 k hk]
        unfold upd
        split
        · rename_i hkj; rw [hkj, hpv]
        · rfl
      · have : (p != x.view j) = true := by simp [hpv]
        rw [this]
        simp only [if_true]
        rw [latest_append]
        unfold upd
        by_cases hkj : k = j
        · rw [if_pos hkj.symm, if_pos hkj]
        · rw [if_neg (fun e => hkj e.symm), if_neg hkj]
          exact j3 k hk
  | deliver j v rest hq =>
    refine ⟨j2, fun k hk => ?_⟩
    have := j3 k hk
    rw [hq] at this
    show latest rest k (upd x.st j v k) = x.view k
    have e : upd x.st j v k = (if ((j, v) : Nat × Nat).1 = k then ((j, v) : Nat × Nat).2 else x.st k) := by
      unfold upd
      by_cases hkj : k = j
      · rw [if_pos hkj, if_pos hkj.symm]
      · rw [if_neg hkj, if_neg (fun e => hkj e.symm)]
    rw [e]
    exact this
  | compact p _ _ _ _ _ => exact ⟨j2, j3⟩
  | add j hj =>
    refine ⟨fun k p' hp' => ?_, fun k hk => ?_⟩
    · have hp'' : upd x.chan j none k = some p' := hp'
      unfold upd at hp''
      split at hp''
      · cases hp''
      · exact j2 k p' hp''
    · show latest (x.q.filter (fun e => e.1 != j)) k (upd x.st j x.R k) = upd x.view j x.R k
      unfold upd
      by_cases hkj : k = j
      · rw [if_pos hkj, if_pos hkj, hkj]
        exact latest_filter_self x.q j x.R
      · rw [if_neg hkj, if_neg hkj, latest_filter_ne x.q j k _ hkj]
        have hk' : k ∈ j :: x.ids := hk
        rcases List.mem_cons.mp hk' with e | e
        · exact absurd e hkj
        · exact j3 k e
  | remove j => exact ⟨j2, fun k hk => j3 k (List.mem_of_mem_erase hk)⟩

theorem qinv_reach {mono : Bool} {x : PState} (h : PReach mono true x) : QInv x := by
  induction h with
  | init x hi => exact qinv_init hi
  | next x y _ ht ih => exact qinv_trans ih ht

/-! ### the original rule (reports only when the view moves up), with a bound that is never lowered -/

/-- the invariant of the protocol with the original report rule when the bound is never lowered -/
structure PInv (x : PState) : Prop where
  /-- no view starts above the bound -/
  i1 : ∀ j, x.view j ≤ x.R
  /-- a waiting update carries a view that starts at or above the goroutine's view, not above the bound -/
  i2 : ∀ j p, x.chan j = some p → x.view j ≤ p ∧ p ≤ x.R
  /-- a waiting report is not above the view of the goroutine that sent it -/
  i3 : ∀ e ∈ x.q, e.2 ≤ x.view e.1
  /-- what a status records is not above the view of its goroutine -/
  i4 : ∀ j ∈ x.ids, x.st j ≤ x.view j

theorem pinv_init {x : PState} (h : PInit x) : PInv x := by
  refine ⟨fun j => by rw [h.view j]; exact Nat.le_refl _, fun j p hp => ?_, fun e he => ?_, fun j _ => ?_⟩
  · rw [h.chan j] at hp; cases hp
  · rw [h.q] at he; cases he
  · rw [h.st j, h.view j]; exact Nat.le_refl _

theorem pinv_trans {chg : Bool} {x y : PState} (hI : PInv x) (ht : PTrans true chg x y) : PInv y := by
  obtain ⟨i1, i2, i3, i4⟩ := hI
  cases ht with
  | setR r hr =>
    have hr' := hr rfl
    refine ⟨fun j => Nat.le_trans (i1 j) hr', fun j p hp => ?_, i3, i4⟩
    have : p = r := by injection hp with hp; exact hp.symm
    rw [this]
    exact ⟨Nat.le_trans (i1 j) hr', Nat.le_refl _⟩
  | notify J =>
    refine ⟨i1, fun j p hp => ?_, i3, i4⟩
    dsimp only at hp
    split at hp
    · have : p = x.R := by injection hp with hp; exact hp.symm
      rw [this]; exact ⟨i1 j, Nat.le_refl _⟩
    · exact i2 j p hp
  | consume j p hc =>
    obtain ⟨c1, c2⟩ := i2 j p hc
    refine ⟨fun k => ?_, fun k p' hp' => ?_, fun e he => ?_, fun k hk => ?_⟩
    · show upd x.view j p k ≤ x.R
      unfold upd; split
      · exact c2
      · exact i1 k
    · have hp'' : upd x.chan j none k = some p' := hp'
      show upd x.view j p k ≤ p' ∧ p' ≤ x.R
      unfold upd at hp'' ⊢
      split at hp''
      · cases hp''
      · rename_i hk
        rw [if_neg hk]
        exact i2 k p' hp''
    · show e.2 ≤ upd x.view j p e.1
      have he' : e ∈ x.q ++ (if reports chg (x.view j) p then [(j, p)] else []) := he
      rcases List.mem_append.mp he' with a | a
      · unfold upd; split
        · rename_i hj
          have := i3 e a
          rw [hj] at this
          exact Nat.le_trans this c1
        · exact i3 e a
      · split at a
        · have : e = (j, p) := List.mem_singleton.mp a
          rw [this]
          unfold upd
          rw [if_pos rfl]
          exact Nat.le_refl _
        · cases a
    · show x.st k ≤ upd x.view j p k
      unfold upd; split
      · rename_i hj
        have := i4 k hk
        rw [hj] at this
        rw [hj]
        exact Nat.le_trans this c1
      · exact i4 k hk
  | deliver j v rest hq =>
    refine ⟨i1, i2, fun e he => i3 e (by rw [hq]; exact List.mem_cons_of_mem _ he), fun k hk => ?_⟩
    show upd x.st j v k ≤ x.view k
    unfold upd; split
    · rename_i hj
      have := i3 (j, v) (by rw [hq]; exact List.mem_cons_self ..)
      rw [hj]
      exact this
    · exact i4 k hk
  | compact p _ _ _ _ _ => exact ⟨i1, i2, i3, i4⟩
  | add j hj =>
    refine ⟨fun k => ?_, fun k p' hp' => ?_, fun e he => ?_, fun k hk => ?_⟩
    · show upd x.view j x.R k ≤ x.R
      unfold upd; split
      · exact Nat.le_refl _
      · exact i1 k
    · have hp'' : upd x.chan j none k = some p' := hp'
      show upd x.view j x.R k ≤ p' ∧ p' ≤ x.R
      unfold upd at hp'' ⊢
      split at hp''
      · cases hp''
      · rename_i hk
        rw [if_neg hk]
        exact i2 k p' hp''
    · have he' : e ∈ x.q.filter (fun e => e.1 != j) := he
      obtain ⟨h1, h2⟩ := List.mem_filter.mp he'
      show e.2 ≤ upd x.view j x.R e.1
      unfold upd
      rw [if_neg (by simpa using h2)]
      exact i3 e h1
    · show upd x.st j x.R k ≤ upd x.view j x.R k
      unfold upd
      split
      · exact Nat.le_refl _
      · rename_i hkj
        have hk' : k ∈ j :: x.ids := hk
        rcases List.mem_cons.mp hk' with e | e
        · exact absurd e hkj
        · exact i4 k e
  | remove j => exact ⟨i1, i2, i3, fun k hk => i4 k (List.mem_of_mem_erase hk)⟩

theorem pinv_reach {chg : Bool} {x : PState} (h : PReach true chg x) : PInv x := by
  induction h with
  | init x hi => exact pinv_init hi
  | next x y _ ht ih => exact pinv_trans ih ht

/-! ### the original rule with a bound that is lowered (finding F19): one replication (id 2), log starting at index 0 -/

def ex0 : PState := { R := 0, P := 0, ids := [2], st := fun _ => 0, view := fun _ => 0, chan := fun _ => none, q := [] }
/-- snapshot 1: `canCompact = 10` -/
def ex1 : PState := { ex0 with R := 10, chan := fun _ => some 10 }
/-- the goroutine switches to the view starting at 10 and reports it -/
def ex2 : PState := { ex1 with view := upd ex1.view 2 10, chan := upd ex1.chan 2 none, q := [(2, 10)] }
/-- the leader records the report -/
def ex3 : PState := { ex2 with st := upd ex2.st 2 10, q := [] }
/-- snapshot 2: `canCompact = 5` — the bound is LOWERED -/
def ex4 : PState := { ex3 with R := 5, chan := fun _ => some 5 }
/-- the goroutine switches to the view starting at 5: not above its old view, NO report (original rule) -/
def ex5 : PState := { ex4 with view := upd ex4.view 2 5, chan := upd ex4.chan 2 none, q := [] }
/-- snapshot 3: `canCompact = 10` again; the update is waiting, the goroutine has not taken it yet -/
def ex6 : PState := { ex5 with R := 10, chan := fun _ => some 10 }
/-- `checkLogCompact`: no report is waiting, the status still says 10 -/
def ex7 : PState := { ex6 with P := 10 }

theorem ex_run : PReach false false ex6 ∧ PTrans false false ex6 ex7 := by
  have r0 : PReach false false ex0 := .init _ ⟨rfl, fun _ => rfl, fun _ => rfl, fun _ => rfl, rfl⟩
  have r1 : PReach false false ex1 := .next _ _ r0 (.setR 10 (fun h => by cases h))
  have r2 : PReach false false ex2 := .next _ _ r1 (.consume 2 10 rfl)
  have r3 : PReach false false ex3 := .next _ _ r2 (.deliver 2 10 [] rfl)
  have r4 : PReach false false ex4 := .next _ _ r3 (.setR 5 (fun h => by cases h))
  have r5 : PReach false false ex5 := .next _ _ r4 (.consume 2 5 rfl)
  have r6 : PReach false false ex6 := .next _ _ r5 (.setR 10 (fun h => by cases h))
  refine ⟨r6, .compact 10 rfl (by decide) ?_ (by decide) (by decide)⟩
  intro j hj
  have : j = 2 := List.mem_singleton.mp hj
  rw [this]
  decide

/-- the same run with the repaired rule: the switch to the view starting at 5 IS reported … -/
def ex5' : PState := { ex4 with view := upd ex4.view 2 5, chan := upd ex4.chan 2 none, q := [(2, 5)] }
/-- … snapshot 3 … -/
def ex6' : PState := { ex5' with R := 10, chan := fun _ => some 10 }
/-- … and when the leader has taken the report the status says 5: `checkLogCompact` waits -/
def ex7' : PState := { ex6' with st := upd ex6'.st 2 5, q := [] }

theorem ex_run_repaired : PReach false true ex7' ∧ ex7'.q = [] ∧ ex7'.st 2 = 5 ∧ ex7'.view 2 = 5 ∧ ex7'.R = 10 ∧
    ¬ (∀ j ∈ ex7'.ids, ex7'.R ≤ ex7'.st j) := by
  have r0 : PReach false true ex0 := .init _ ⟨rfl, fun _ => rfl, fun _ => rfl, fun _ => rfl, rfl⟩
  have r1 : PReach false true ex1 := .next _ _ r0 (.setR 10 (fun h => by cases h))
  have r2 : PReach false true ex2 := .next _ _ r1 (.consume 2 10 rfl)
  have r3 : PReach false true ex3 := .next _ _ r2 (.deliver 2 10 [] rfl)
  have r4 : PReach false true ex4 := .next _ _ r3 (.setR 5 (fun h => by cases h))
  have r5 : PReach false true ex5' := .next _ _ r4 (.consume 2 5 rfl)
  have r6 : PReach false true ex6' := .next _ _ r5 (.setR 10 (fun h => by cases h))
  have r7 : PReach false true ex7' := .next _ _ r6 (.deliver 2 5 [] rfl)
  refine ⟨r7, rfl, by decide, by decide, rfl, fun h => ?_⟩
  have := h 2 (List.mem_singleton.mpr rfl)
  revert this
  decide

end SnapView
end Raft
