/-
The cluster-level transition system WITH membership changes — `Commit.Sys` (Sys/Commit.lean: any node performs any
enabled operation of `Node.step` at any time; crashes at any storage point + restart; leaders put append requests read
from their log on the wire; ledgers of granted / counted votes, leaders, sent requests, created entries,
acknowledgements, campaigns and leader commits) with the two restrictions of the fixed-membership models lifted:

* `.changeConfig` requests are delivered to any node at any time (a leader handles them with `leader.onChangeConfig`,
  checks included; a node that is not bootstrapped with `Raft.bootstrap`), configuration entries are ordinary log
  entries, created by `leader.storeEntry` / `leader.changeConfig`, replicated by append requests and adopted by the
  followers (`Raft.changeConfig`) as the code does; every node uses the LATEST configuration of its log, committed
  or not, for its quorum and its candidacy;
* no voter set is fixed: `Election.FixedV` / `Commit.SideV` are gone.

Two more ghost ledgers:
* `ecfg`    — (candidate, term, configuration): recorded together with the campaign (`Commit.campOf`: the node's vote
              moves to itself in a higher term — `candidate.startElection`) — the node's latest configuration when the
              election starts: the configuration whose voters it asks and whose quorum it needs;
* `changes` — (node, state before the step, operation, state after the step) of every completed step, other than an
              append request, in which the index of the node's latest configuration grew: a configuration the node
              introduced as LEADER (`C08Step.config_step`).

What remains of the environment assumptions: those of `Commit.Enabled` except `OpOK2` (no snapshots: `LogRel.OpOK`;
no forged append requests / vote requests / match-index reports; vote responses are real replies) plus `CfgRel.OpOk`:
a client batch holds no configuration entry, a submitted configuration has distinct member ids.
`ReachableP P`: the states reachable by runs in which the state predicate `P` holds in every state (each theorem names
the `P` it needs: `Boot` — every node is bootstrapped, as in `Election.FixedV`; `NodesOK` — the node-level invariants
of C06Cache / C19Order / C08Step).
-/
import RaftVerif.Sys.Commit
import RaftVerif.Lemmas.ConfigRel
import RaftVerif.Lemmas.MemberRel

namespace Raft
namespace Member
open Node Election LogRel Replication CommitRel Commit

/-- the configuration an election was started with -/
structure ECfg where
  cand : Nat
  term : Nat
  cfg : Config
  deriving DecidableEq, Repr

/-- a completed step in which a node introduced a configuration -/
structure Change where
  node : Nat
  pre : Node
  op : Op
  post : Node

structure Sys where
  cm : Commit.Sys
  ecfg : List ECfg
  changes : List Change

/-- node `i` of the cluster -/
abbrev Sys.node (x : Sys) (i : Nat) : Node := x.cm.node i

/-- the election part (nodes, grants, counted votes, leaders) -/
abbrev Sys.el (x : Sys) : Election.Sys := x.cm.rp.el

/-- the configuration of the election: during the step the node's vote moved to itself in a higher term; the
election asks the voters of the latest configuration the node had when the step began -/
def ecfgOf (i : Nat) (pre post : Node) : List ECfg :=
  if post.term > pre.term ∧ post.votedFor = i then [{ cand := i, term := post.term, cfg := pre.configs.latest }] else []

/-- the node introduced a configuration in a step that did not handle an append request -/
def changeOf (i : Nat) (pre : Node) (op : Op) (post : Node) : List Change :=
  if isAppend op = false ∧ pre.configs.latest.index < post.configs.latest.index then
    [{ node := i, pre := pre, op := op, post := post }]
  else []

/-- what may be delivered to node `i`: as `Commit.Enabled`, with `CommitRel.OpOK2` (no configuration change)
replaced by `CfgRel.OpOk` (well-formed client batches and configuration requests) -/
structure Enabled (x : Sys) (i : Nat) (op : Op) (src : Nat) : Prop where
  rp : Replication.Enabled x.cm.rp i op src
  cfg : CfgRel.OpOk op
  vote : ∀ q, op = .vote q → q.term < (x.node i).term ∨
    ({ cand := q.src, term := q.term, lastIndex := q.lastLogIndex, lastTerm := q.lastLogTerm } : Camp) ∈ x.cm.camps
  appendSrc : ∀ q, op = .append q → q.src ≠ i
  upd : ∀ us, op = .replUpdates us → ∀ u ∈ us, ∀ v, u.upd = .matchIndex v →
    v = 0 ∨ ∃ a ∈ x.cm.acks, a.voter = u.id ∧ a.term = (x.node i).term ∧ v ≤ a.index

/-- the `Commit.Sys` part of the state after node `i` handled `op` (as `Commit.Trans.step`) -/
def stepCm (x : Commit.Sys) (i : Nat) (op : Op) (ra : List Nat) (ord : List (List Nat)) (src : Nat) : Commit.Sys :=
  { rp := stepRp x i op ra ord src
    acks := ackOf i op ((x.node i).step op ra ord) ++ (selfAck i op (x.node i) ((x.node i).step op ra ord) ++ x.acks)
    camps := campOf i (x.node i) ((x.node i).step op ra ord) ++ x.camps
    committed := newCommit op (x.node i) ((x.node i).step op ra ord) ++ x.committed }

/-- the `Commit.Sys` part of the state after node `i` died while handling `op` and restarted as `n` -/
def crashCm (x : Commit.Sys) (i : Nat) (op : Op) (n : Node) : Commit.Sys :=
  { x with rp := crashRp x i op n, camps := campOf i (x.node i) n ++ x.camps }

/-- the state after node `i` handled `op` to completion -/
def stepM (x : Sys) (i : Nat) (op : Op) (ra : List Nat) (ord : List (List Nat)) (src : Nat) : Sys :=
  { cm := stepCm x.cm i op ra ord src
    ecfg := ecfgOf i (x.node i) ((x.node i).step op ra ord) ++ x.ecfg
    changes := changeOf i (x.node i) op ((x.node i).step op ra ord) ++ x.changes }

/-- the state after node `i` died while handling `op` and restarted as `n` -/
def crashM (x : Sys) (i : Nat) (op : Op) (n : Node) : Sys :=
  { x with cm := crashCm x.cm i op n, ecfg := ecfgOf i (x.node i) n ++ x.ecfg }

inductive Trans (x : Sys) : Sys → Prop
  /-- node `i` handles an enabled operation to completion; the ledgers record what it acknowledged, the campaign it
  started (with its configuration), the index its leader-side commit rule reached and the configuration it
  introduced -/
  | step (i : Nat) (op : Op) (ra : List Nat) (ord : List (List Nat)) (src : Nat) : Enabled x i op src →
      Trans x (stepM x i op ra ord src)
  /-- node `i` dies while handling an enabled operation, after `k` storage points, and restarts -/
  | crash (i : Nat) (op : Op) (ra : List Nat) (ord : List (List Nat)) (src k retain : Nat) (sor : Bool)
      (n : Node) : Enabled x i op src →
      Node.restart (C05.crashDisk (x.node i) op ra ord k) retain sor = some n →
      Trans x (crashM x i op n)
  /-- the leader `i` puts an append request read from its log on the wire, stamped with a commit index not above
  its own -/
  | send (i : Nat) (q : AppendReq) : i ≠ 0 → (x.node i).role = .leader → ReadFrom (x.node i) q →
      q.ldrCommitIndex ≤ (x.node i).commitIndex →
      Trans x { x with cm := { x.cm with rp := { x.cm.rp with sent := q :: x.cm.rp.sent } } }

/-- Initial states: those of `Commit.Init`; the new ledgers are empty. -/
structure Init (x : Sys) : Prop where
  cm : Commit.Init x.cm
  ecfg : x.ecfg = []
  changes : x.changes = []

/-- States reachable by runs in which `P` holds in every state. -/
inductive ReachableP (P : Sys → Prop) : Sys → Prop
  | init (x : Sys) : Init x → P x → ReachableP P x
  | next (x y : Sys) : ReachableP P x → Trans x y → P y → ReachableP P y

theorem ReachableP.side {P : Sys → Prop} {x : Sys} (h : ReachableP P x) : P x := by
  cases h with
  | init _ _ hp => exact hp
  | next _ _ _ _ hp => exact hp

theorem ReachableP.mono {P Q : Sys → Prop} (hPQ : ∀ x, P x → Q x) {x : Sys} (h : ReachableP P x) : ReachableP Q x := by
  induction h with
  | init x hi hp => exact .init x hi (hPQ x hp)
  | next x y _ ht hp ih => exact .next x y ih ht (hPQ y hp)

/-- every node is bootstrapped (as in `Election.FixedV`) -/
def Boot (x : Sys) : Prop := ∀ i, (x.node i).configs.isBootstrapped = true

/-- the election part of a run is a run of `Election` (without the fixed-membership side condition) -/
theorem trans_el {x y : Sys} (h : Trans x y) : Election.Trans x.el y.el ∨ y.el = x.el := by
  cases h with
  | step i op ra ord src he => exact Or.inl (.step i op ra ord src he.rp.id he.rp.voteSrc he.rp.real)
  | crash i op ra ord src k retain sor n he hn => exact Or.inl (.crash i op ra ord k retain sor n he.rp.id hn)
  | send i q _ _ _ _ => exact Or.inr rfl

end Member
end Raft
