/-
The cluster-level transition system with local snapshots, log compaction AND THE LEADER'S DELAYED COMPACTION
(`leader.checkLogCompact`) — stage 2 (Sys/Snap2.lean) without its restriction "replication updates never report a
compaction".

Background (leader.go, fsm.go, replication.go).  When a snapshot was taken, `Raft.onSnapshotTaken` compacts the log at
once up to `nowCompact` (the match index of the slowest replication, lowered to a segment boundary); if the replications
that are in contact would allow more (`canCompact > nowCompact`) it records the wanted first index in `ldr.removeLTE` and
sends every replication goroutine a new view of the log that starts there (`leader.notifyFlr`).  A goroutine that
switched to a view starting at `p` above its old one reports `removeLTE{p}`; `leader.checkReplUpdates` stores the report
in the replication's status and, if a report was in the batch and `ldr.removeLTE > log.prev`, calls
`leader.checkLogCompact`, which runs `compactLog(ldr.removeLTE)` iff EVERY status holds `removeLTE ≥ ldr.removeLTE`.

`Snap5` has the states of `Snap2` (`Snap2.Sys`: the nodes, the ledgers of `Raft.Commit`, the ghost ledger of snapshot
files, the ghost record `base i` of what node `i` compacted away) and its transitions, with
* `Enabled`: `Snap.Enabled` without the clause `NoCompact` — a `.replUpdates` batch may contain ANY `removeLTE` reports
  (for the cluster-level safety properties it does not matter whether a report is one a replication goroutine would
  send: the leader never compacts beyond `ldr.removeLTE`, whatever is reported);
* `Trans.crash`: a node dies at any storage point of any operation, except that in a step that runs `compactLog` inside
  `checkReplUpdates` it dies BEFORE that storage point (`BeforeCompact`).  A process that dies in or after
  `compactLog` — the last storage point of such a step — leaves the disk of the completed step: the node states this
  produces are those of the completed step followed by a crash before the first storage point of the next operation
  (`SnapDelay.crash_after_compact`, Lemmas/SnapDelayC.lean), which IS a run of this system; only the ghost ledgers
  differ (they record what the completed step acknowledged).

Restrictions (`_partial`): those of Sys/Snap2.lean (fixed voter set, fixed stable configuration, no forged requests, no
installation of snapshots, no `shutdown`; completed steps do not fail an assertion; the side conditions `Side2` on every
state: `SideV`, `CfgDec`, well-formed segment lists, no log compacted exactly up to its snapshot index; `retain ≥ 1`)
and ONE more side condition on every state (`Side5.rm`):
* `ldr.removeLTE ≤ snapIndex` on every node — a clause of the per-node invariant `Order.Ordered`, which
  `C19Order.ordered_step` proves inductive for EVERY operation (acceptable requests).  Lemmas/SnapDelayE.lean
  DISCHARGES it inside the system (`SnapDelay.reachable5c`: every node of every reachable state is `Order.Ordered`) for
  runs that satisfy instead the two side conditions on configurations of `Snap4.Side4` (`cfgord`, `cfg`) and start with
  leader records that hold no bound.
-/
import RaftVerif.Sys.Snap2
import RaftVerif.Lemmas.SnapDelayA
import RaftVerif.Props.C06Cache

namespace Raft
namespace Snap5
open Node Election LogRel Replication CommitRel Commit C02Sys SnapRelU SnapSim Snap Snap2 SnapDelay

/-- The operations of this stage: everything except installing a snapshot and `shutdown`. (`Snap.OpOKS` without the
clause for `.replUpdates`.) -/
def OpOK5 : Op → Prop
  | .install _ => False
  | .shutdown => False
  | _ => True

/-- … and, as in `CommitRel.OpOK2`, no configuration change -/
def OpOK25 (op : Op) : Prop :=
  OpOK5 op ∧ (∀ b, op = .newEntries b → NoCfg b) ∧ (∀ t c, op ≠ .changeConfig t c)

/-- What may be delivered to node `i`: the conditions of `Snap.Enabled` with `OpOK5` for `Snap.OpOKS`. -/
structure Enabled (x : Commit.Sys) (i : Nat) (op : Op) (src : Nat) : Prop where
  id : i ≠ 0
  voteSrc : ∀ q, op = .vote q → q.src ≠ 0
  real : Counts (x.node i) op → RealReply x.rp.el i src
  ok2 : OpOK25 op
  append : ∀ q, op = .append q → q.term < (x.node i).term ∨ q ∈ x.rp.sent
  vote : ∀ q, op = .vote q → q.term < (x.node i).term ∨
    ({ cand := q.src, term := q.term, lastIndex := q.lastLogIndex, lastTerm := q.lastLogTerm } : Camp) ∈ x.camps
  appendSrc : ∀ q, op = .append q → q.src ≠ i
  upd : ∀ us, op = .replUpdates us → ∀ u ∈ us, ∀ v, u.upd = .matchIndex v →
    v = 0 ∨ ∃ a ∈ x.acks, a.voter = u.id ∧ a.term = (x.node i).term ∧ v ≤ a.index

/-- the process dies before `compactLog`: the step did not compact, or `k` is at most the number of storage points of
the step without the compaction (`SnapDelay.stepNC`) -/
def BeforeCompact (s : Node) (op : Op) (ra : List Nat) (ord : List (List Nat)) (k : Nat) : Prop :=
  ∀ us, op = .replUpdates us →
    s.step op ra ord = stepNC s us ra ord ∨ k ≤ (stepNC s us ra ord).trace.length

inductive Trans (x : Snap2.Sys) : Snap2.Sys → Prop
  /-- node `i` handles an enabled operation to completion, without failing an assertion -/
  | step (i : Nat) (op : Op) (ra : List Nat) (ord : List (List Nat)) (src : Nat) : Enabled x.cs i op src →
      ((x.node i).step op ra ord).panicked = none →
      Trans x (stepS x i op ra ord src)
  /-- node `i` dies while handling an enabled operation (that would not fail an assertion), after `k` storage points —
  before `compactLog` if `checkReplUpdates` compacts —, and restarts from what is on disk -/
  | crash (i : Nat) (op : Op) (ra : List Nat) (ord : List (List Nat)) (src k retain : Nat) (sor : Bool)
      (n : Node) : Enabled x.cs i op src → 1 ≤ retain →
      ((x.node i).step op ra ord).panicked = none → BeforeCompact (x.node i) op ra ord k →
      Node.restart (C05.crashDisk (x.node i) op ra ord k) retain sor = some n →
      Trans x (crashS x i op n)
  /-- the leader `i` puts an append request read from its log on the wire -/
  | send (i : Nat) (q : AppendReq) : i ≠ 0 → (x.node i).role = .leader → ReadFrom2 (x.node i) (x.vnode i) q →
      q.ldrCommitIndex ≤ (x.node i).commitIndex →
      Trans x { x with cs := sendC x.cs q }

/-- Side condition on every state of a run: `Snap2.Side2`, and the leader's compaction bound is not beyond the
snapshot index. -/
structure Side5 (V : List Nat) (x : Snap2.Sys) : Prop where
  side : Side2 V x
  rm : ∀ i, (x.node i).ldr.removeLTE ≤ (x.node i).snapIndex

/-- States reachable by runs in which `Side5 V` holds in every state (initial states: those of stage 2). -/
inductive Reachable5 (V : List Nat) : Snap2.Sys → Prop
  | init (x : Snap2.Sys) : Snap2.Init x → Side5 V x → Reachable5 V x
  | next (x y : Snap2.Sys) : Reachable5 V x → Trans x y → Side5 V y → Reachable5 V y

end Snap5
end Raft
