/-
The cluster-level transition system with local snapshots, log compaction AND INSTALLATION OF SNAPSHOTS (stage 3 of the
extension of `Raft.Commit` by snapshots; stage 1: Sys/Snap.lean, stage 2: Sys/Snap2.lean).

`Snap3.Sys` = a state of stage 2 (`s2 : Snap2.Sys`: the nodes, the ledgers of `Raft.Commit` kept on the VIRTUAL nodes,
the ledger `snaps` of snapshot files, the ghost record `base i` of the entries node `i` no longer holds) plus one ledger

* `sentSnaps` — every install request a leader has put on the wire (`Trans.sendSnap`), each with a ghost component
                `pre`: the first `lastIndex` entries of the sender's virtual log at that moment — the prefix the snapshot
                stands for.

What is NEW with respect to Sys/Snap2.lean:
* `Trans.sendSnap i q` — the leader `i` sends its NEWEST snapshot file as an install request stamped with its term
  (`SnapRead`: `lastIndex / lastTerm / lastConfig / data` are those of the head of its snapshot listing; what
  `replication.sendInstallSnapReq` reads — `Repl.install_match_index`);
* `Trans.install i m` — node `i` handles the install request `m.q` to completion (`Node.step (.install m.q)`,
  `Raft.onInstallSnapRequest`): a request that is not refused as stale must be one of the ledger (no forged install
  requests; delay, loss, duplication, reordering and delivery to ANY node are unrestricted: the ledger only grows).
  The handler ignores a request with `lastIndex ≤ commitIndex`, installs nothing when the log already holds
  `(lastIndex, lastTerm)`, and otherwise (`SnapInst.Installs`) publishes the snapshot file, applies retention, resets the
  log to the snapshot, restores the state machine from the file, sets `commitIndex := lastIndex` and both configurations
  to the label.  In that case `base i` becomes `m.pre` (the log of `i` is empty: its virtual log is the prefix the
  snapshot stands for); otherwise `base i` stays;
* `Trans.crashInstall i m … k …` — node `i` dies while handling the install request, after `k` storage points
  (`value.set`, `snap.publish`, `snap.retain`, `clearLog`), and restarts from what is on disk.  If the disk already
  holds the received snapshot file, the restart resets the log to it (`Node.staleLog`: finding F18, repaired) and
  `base i` becomes `m.pre`; otherwise `base i` stays.
From then on a log may start EXACTLY at its snapshot index (`log.prev = snapIndex`, the log possibly empty): the side
condition `Side2.gap` of stage 2 is gone.

Restrictions of this stage (`_partial`), in addition to those of `Raft.Commit` (fixed voter set `V`, fixed stable
configuration, no forged requests — see Sys/Commit.lean) and those kept from stage 2 (`.shutdown` never occurs,
replication updates report no compaction, completed steps do not fail an assertion and a process dies only in a step
that would not fail one, `retain ≥ 1`, side conditions `SideV`, `CfgDec` on the virtual logs, well-formed segment lists):
* **`NoCut`, for CRASHES only** — a process does not die while handling an append request that overwrites the
  UNCOMMITTED entry directly behind an installed snapshot while that entry is the first of the log (the handling node
  has `0 < log.prev = snapIndex = commitIndex` — after an installation, until the first entry behind the snapshot is
  committed or the node takes its next own snapshot — and the request conflicts with the log at `log.prev + 1`).
  (`RemoveGTE` empties the log there; the un-compaction of Lemmas/SnapRelU*.lean does not commute with that on the
  segment list, and the crash analysis of stage 2 is built on it.)  COMPLETED steps are unrestricted: they are handled
  with an un-compaction that keeps the segment list (Lemmas/SnapInstV.lean, Lemmas/SnapInst3v.lean).
* **`TermTracked`** — a `.snapRun` step is taken only in a state in which `fsm.term` is the term of the log entry at
  `fsm.index` (when the log holds it).  This is the per-node invariant `C12Track.Tracks.fsmOk.termLog`
  (`C12Track.tracks_term`), proved inductive for every operation in Props/C12Track.lean.  It makes the `(index, term)`
  of a snapshot TAKEN by a node name an entry of its log; for INSTALLED snapshots nothing is assumed.  The premise is
  REMOVED in Sys/Snap4.lean (`Raft.Snap4`: the per-node invariant is carried along the runs, Lemmas/SnapInst4*.lean, at
  the price of three side conditions on configurations); every run of `Raft.Snap4` is a run of this system.
* a crash in an operation of stage 2 does not make `openStorage` reset the log (`staleLog = false` for what is on
  disk; in stage 2 this followed from `Side2.gap`); a crash in the install handler that leaves the OLD snapshot files
  likewise.  (A crash that leaves the NEW snapshot file with the OLD log — the F18 window — is covered: there the log
  IS stale and the reset is what makes the restart safe.)
-/
import RaftVerif.Sys.Snap2
import RaftVerif.Lemmas.SnapInstCrash

namespace Raft
namespace Snap3
open Node Election LogRel Replication CommitRel Commit C02Sys SnapRelU SnapSim Snap Snap2 SnapInst

/-- an install request on the wire, with the prefix of the sender's virtual log it stands for (ghost) -/
structure SnapMsg where
  q : InstallReq
  pre : List Entry

/-- The cluster of stage 2 with the ledger of install requests. -/
structure Sys where
  s2 : Snap2.Sys
  sentSnaps : List SnapMsg

/-- node `i` of the cluster -/
abbrev Sys.node (x : Sys) (i : Nat) : Node := x.s2.cs.node i

/-- node `i` with its log un-compacted -/
abbrev Sys.vnode (x : Sys) (i : Nat) : Node := x.s2.vnode i

/-- the virtual log of node `i`: `base i ++ log.entries` -/
abbrev Sys.vlog (x : Sys) (i : Nat) : List Entry := x.s2.vlog i

/-- the cluster of the virtual nodes, as a state of the system of stage 1 -/
abbrev view3 (x : Sys) : Snap.Sys := Snap2.view x.s2

/-- `q` is what a replication goroutine of the leader `s` sends when the follower is behind the leader's log: the
newest snapshot file, stamped with the leader's term -/
structure SnapRead (s : Node) (q : InstallReq) : Prop where
  term : q.term = s.term
  src : q.src = s.nid
  file : s.snapsDisk.head? = some (C09.fileOf q)

/-- an append request does not overwrite the entry directly behind a snapshot at which the log starts (required of a
node that dies while handling the request) -/
def NoCut (s : Node) : Op → Prop
  | .append q => q.term < s.term ∨ s.log.prev = 0 ∨ s.log.prev < s.snapIndex ∨ s.log.prev < s.commitIndex ∨
      ∀ ne ∈ q.entries, ne.index = s.log.prev + 1 → s.lastLogIndex < ne.index ∨ s.entryTerm? ne.index = some ne.term
  | _ => True

/-- `fsm.term` is the term of the log entry at `fsm.index` when the log holds it (`C12Track.tracks_term`); required of
a node that takes a snapshot -/
def TermTracked (s : Node) : Op → Prop
  | .snapRun => s.log.prev < s.fsm.index → s.entryTerm? s.fsm.index = some s.fsm.term
  | _ => True

/-- the compacted-away entries of node `i` after it handled the install request `m`: the prefix the snapshot stands
for if the snapshot was installed, else what they were -/
def instBase (x : Sys) (i : Nat) (m : SnapMsg) (hasFile : Prop) [Decidable hasFile] : List Entry :=
  if hasFile then m.pre else newBase x.s2 i (x.node i).log.prev

/-- the state after node `i` was replaced by `post` by an installation (completed, or interrupted by a crash): the
ledgers of `Raft.Commit` stay as they are; new snapshot files are recorded; `base i` is set -/
def replS (x : Sys) (i : Nat) (post : Node) (β : List Entry) : Sys :=
  { s2 := { cs := withNodes x.s2.cs (setNode x.s2.cs.rp.el.node i post)
            snaps := newSnaps i (x.node i).snapsDisk post.snapsDisk ++ x.s2.snaps
            base := setBase x.s2.base i β }
    sentSnaps := x.sentSnaps }

/-- the state after node `i` handled the install request of `m` to completion -/
def installS (x : Sys) (i : Nat) (m : SnapMsg) (ra : List Nat) (ord : List (List Nat)) : Sys :=
  replS x i ((x.node i).step (.install m.q) ra ord) (instBase x i m (Installs (x.node i) m.q))

/-- the state after node `i` died while handling the install request of `m` and restarted as `n` from the disk `d` -/
def crashInstS (x : Sys) (i : Nat) (m : SnapMsg) (d : Durable) (n : Node) : Sys :=
  replS x i n (instBase x i m (d.snaps.head? = some (C09.fileOf m.q) ∧ Installs (x.node i) m.q))

inductive Trans (x : Sys) : Sys → Prop
  /-- node `i` handles an enabled operation of stage 2 to completion, without failing an assertion -/
  | step (i : Nat) (op : Op) (ra : List Nat) (ord : List (List Nat)) (src : Nat) : Snap.Enabled x.s2.cs i op src →
      ((x.node i).step op ra ord).panicked = none → TermTracked (x.node i) op →
      Trans x { x with s2 := stepS x.s2 i op ra ord src }
  /-- node `i` dies while handling an enabled operation of stage 2, after `k` storage points, and restarts from what
  is on disk, which is not a stale log -/
  | crash (i : Nat) (op : Op) (ra : List Nat) (ord : List (List Nat)) (src k retain : Nat) (sor : Bool)
      (n : Node) : Snap.Enabled x.s2.cs i op src → 1 ≤ retain →
      ((x.node i).step op ra ord).panicked = none → NoCut (x.node i) op → TermTracked (x.node i) op →
      staleLog (C05.crashDisk (x.node i) op ra ord k) = false →
      Node.restart (C05.crashDisk (x.node i) op ra ord k) retain sor = some n →
      Trans x { x with s2 := crashS x.s2 i op n }
  /-- the leader `i` puts an append request read from its log on the wire -/
  | send (i : Nat) (q : AppendReq) : i ≠ 0 → (x.node i).role = .leader → ReadFrom2 (x.node i) (x.vnode i) q →
      q.ldrCommitIndex ≤ (x.node i).commitIndex →
      Trans x { x with s2 := { x.s2 with cs := sendC x.s2.cs q } }
  /-- the leader `i` puts its newest snapshot on the wire -/
  | sendSnap (i : Nat) (q : InstallReq) : i ≠ 0 → (x.node i).role = .leader → SnapRead (x.node i) q →
      Trans x { x with sentSnaps := ⟨q, (x.vlog i).take q.lastIndex⟩ :: x.sentSnaps }
  /-- node `i` handles an install request to completion, without failing an assertion -/
  | install (i : Nat) (m : SnapMsg) (ra : List Nat) (ord : List (List Nat)) : i ≠ 0 →
      (m.q.term < (x.node i).term ∨ m ∈ x.sentSnaps) →
      ((x.node i).step (.install m.q) ra ord).panicked = none →
      Trans x (installS x i m ra ord)
  /-- node `i` dies while handling an install request, after `k` storage points, and restarts from what is on disk;
  unless the disk holds the received snapshot file, the log on disk is not stale -/
  | crashInstall (i : Nat) (m : SnapMsg) (ra : List Nat) (ord : List (List Nat)) (k retain : Nat) (sor : Bool)
      (n : Node) : i ≠ 0 → (m.q.term < (x.node i).term ∨ m ∈ x.sentSnaps) → 1 ≤ retain →
      ((x.node i).step (.install m.q) ra ord).panicked = none →
      ((C05.crashDisk (x.node i) (.install m.q) ra ord k).snaps = (x.node i).snapsDisk →
        staleLog (C05.crashDisk (x.node i) (.install m.q) ra ord k) = false) →
      Node.restart (C05.crashDisk (x.node i) (.install m.q) ra ord k) retain sor = some n →
      Trans x (crashInstS x i m (C05.crashDisk (x.node i) (.install m.q) ra ord k) n)

/-- Side condition on every state of a run: `Commit.SideV` (bootstrapped, voters `V`, stable latest configuration),
configuration entries of the virtual logs decode, segment lists are well formed. -/
structure Side3 (V : List Nat) (x : Sys) : Prop where
  sideV : SideV V x.s2.cs
  dec : CfgDec (view x.s2).cs
  segs : ∀ i, C09.SegsOK (x.node i).log

/-- Initial states: those of stage 2 (no snapshot anywhere, nothing compacted, every node a follower whose memory
matches its disk, logs pairwise matching and flushed); nothing was sent. -/
structure Init (x : Sys) : Prop where
  init : Snap2.Init x.s2
  term : ∀ i, (x.node i).snapTerm = 0
  sent : x.sentSnaps = []

/-- States reachable by runs in which `Side3 V` holds in every state. -/
inductive Reachable3 (V : List Nat) : Sys → Prop
  | init (x : Sys) : Init x → Side3 V x → Reachable3 V x
  | next (x y : Sys) : Reachable3 V x → Trans x y → Side3 V y → Reachable3 V y

end Snap3
end Raft
