/-
A cluster-level transition system for commit safety — `Replication.Sys` (Sys/Replication.lean: any node performs
any enabled operation of `Node.step` at any time; crashes at any storage point + restart; leaders put append
requests read from their log on the wire; ledgers of granted / counted votes, leaders, sent requests and
created entries) extended by three ghost ledgers:

* `acks`      — (voter j, term t, index k, entry term τ): at a moment when j's current term was t its log held an
                entry with term τ at index k, and either j answered `success` to an append request of term t whose
                last index is k (`ackOf`), or j is the leader of t and k is the index its own commit index just
                reached (`selfAck`; the leader counts itself in `majorityMatchIndex`);
* `camps`     — (candidate c, term t, lastLogIndex, lastLogTerm): recorded when c's vote moves to itself in the
                higher term t (`candidate.startElection`), with the coordinates of its last log entry — in a
                completed step and also when the node dies during the step and restarts with that durable
                (term, vote) (`campOf` in `Trans.step` and in `Trans.crash`);
* `committed` — (index, term) of the entry a LEADER's commit index reached by the majority rule. An entry counts
                as committed (`Cmt`) if it is an ancestor of (or equal to) a ledger entry in the tree of created
                entries; the invariant `cc` says that every node's commit index only covers committed entries.

Additional enabling conditions (messages are produced by nodes, not forged; delay, loss, duplication and
reordering stay unrestricted because the ledgers only grow):
* a vote request that is not refused as stale is a recorded campaign (`camps`): its log claim is the
  candidate's real one;
* an append request is never delivered to its own sender;
* a `matchIndex` report `(j, v)` with `v > 0` delivered to node i in `.replUpdates` is backed by an
  acknowledgement of j for i's current term at an index ≥ v (`replication.onAppendEntriesResp` raises
  `matchIndex` only on a success response, `Repl.match_index_sound`);
* a leader stamps a request with a commit index not above its own (`Trans.send`);
* initial states (`Init`): those of Sys/Replication.lean; in addition every initial log is flushed and well
  formed, nobody has voted or committed or applied anything, the tree of initial entries is closed under
  predecessors with terms that do not decrease along a path (`TreeOK`), and the three ledgers are empty;
* **restrictions of this `_partial` model**: those of Sys/Replication.lean (no snapshots / compaction, fixed
  voter set `V`) and, in addition, a fixed STABLE configuration: in every state every node's latest
  configuration has no pending action (`SideV`), no operation asks for a configuration change and no client batch
  carries a configuration entry (`CommitRel.OpOK2`). (Reason: within one step a leader may change its
  configuration several times; that the majority it counts for a commit is a majority of `V` is only proved
  when no change is in progress.)
-/
import RaftVerif.Lemmas.CommitRel

namespace Raft
namespace Commit
open Node Election LogRel Replication CommitRel

structure Ack where
  voter : Nat
  term : Nat
  index : Nat
  eterm : Nat
  deriving DecidableEq, Repr

structure Camp where
  cand : Nat
  term : Nat
  lastIndex : Nat
  lastTerm : Nat
  deriving DecidableEq, Repr

structure Sys where
  rp : Replication.Sys
  acks : List Ack
  camps : List Camp
  committed : List (Nat × Nat)

/-- node `i` of the cluster -/
abbrev Sys.node (x : Sys) (i : Nat) : Node := x.rp.el.node i

/-- the tree of created entries -/
abbrev Sys.T (x : Sys) : List CEntry := x.rp.created

/-- (index, term) an acknowledgement is about -/
def Ack.key (a : Ack) : Nat × Nat := (a.index, a.eterm)

/-- coordinates of the candidate's last log entry -/
def Camp.last (k : Camp) : Nat × Nat := (k.lastIndex, k.lastTerm)

/-- the acknowledgement a `success` reply to an append request stands for -/
def ackOf (i : Nat) (op : Op) (post : Node) : List Ack :=
  match op with
  | .append q =>
    if post.rpcReply.map (·.result) = some rSuccess ∧ 1 ≤ q.prevLogIndex + q.entries.length then
      [{ voter := i, term := q.term, index := q.prevLogIndex + q.entries.length,
         eterm := termAt post.log.entries (q.prevLogIndex + q.entries.length) }]
    else []
  | _ => []

def isAppend : Op → Bool
  | .append _ => true
  | _ => false

/-- the commit index moved in a step that did not handle an append request: the leader's majority rule -/
def LeaderCommit (op : Op) (pre post : Node) : Prop := isAppend op = false ∧ pre.commitIndex < post.commitIndex

instance (op : Op) (pre post : Node) : Decidable (LeaderCommit op pre post) := by
  unfold LeaderCommit; infer_instance

def newCommit (op : Op) (pre post : Node) : List (Nat × Nat) :=
  if LeaderCommit op pre post then [(post.commitIndex, termAt post.log.entries post.commitIndex)] else []

def selfAck (i : Nat) (op : Op) (pre post : Node) : List Ack :=
  if LeaderCommit op pre post then
    [{ voter := i, term := termAt post.log.entries post.commitIndex, index := post.commitIndex,
       eterm := termAt post.log.entries post.commitIndex }]
  else []

/-- the campaign: during the step the node's vote moved to itself in a higher term -/
def campOf (i : Nat) (pre post : Node) : List Camp :=
  if post.term > pre.term ∧ post.votedFor = i then
    [{ cand := i, term := post.term, lastIndex := pre.lastLogIndex, lastTerm := pre.lastLogTerm }]
  else []

/-- what may be delivered to node `i` -/
structure Enabled (x : Sys) (i : Nat) (op : Op) (src : Nat) : Prop where
  rp : Replication.Enabled x.rp i op src
  ok2 : OpOK2 op
  vote : ∀ q, op = .vote q → q.term < (x.node i).term ∨
    ({ cand := q.src, term := q.term, lastIndex := q.lastLogIndex, lastTerm := q.lastLogTerm } : Camp) ∈ x.camps
  appendSrc : ∀ q, op = .append q → q.src ≠ i
  upd : ∀ us, op = .replUpdates us → ∀ u ∈ us, ∀ v, u.upd = .matchIndex v →
    v = 0 ∨ ∃ a ∈ x.acks, a.voter = u.id ∧ a.term = (x.node i).term ∧ v ≤ a.index

/-- the replication part of the state after node `i` handled `op` -/
def stepRp (x : Sys) (i : Nat) (op : Op) (ra : List Nat) (ord : List (List Nat)) (src : Nat) : Replication.Sys :=
  { el := stepSys x.rp.el i op ra ord src
    sent := x.rp.sent
    created := newCreated i (x.node i).log.entries ((x.node i).step op ra ord).log.entries op ++ x.rp.created }

/-- the replication part of the state after node `i` died while handling `op` and restarted as `n` -/
def crashRp (x : Sys) (i : Nat) (op : Op) (n : Node) : Replication.Sys :=
  { el := { x.rp.el with node := setNode x.rp.el.node i n }
    sent := x.rp.sent
    created := newCreated i (x.node i).log.entries n.log.entries op ++ x.rp.created }

inductive Trans (x : Sys) : Sys → Prop
  /-- node `i` handles an enabled operation to completion; the ledgers record what it acknowledged, the
  campaign it started and the index its leader-side commit rule reached -/
  | step (i : Nat) (op : Op) (ra : List Nat) (ord : List (List Nat)) (src : Nat) : Enabled x i op src →
      Trans x { rp := stepRp x i op ra ord src
                acks := ackOf i op ((x.node i).step op ra ord) ++
                  (selfAck i op (x.node i) ((x.node i).step op ra ord) ++ x.acks)
                camps := campOf i (x.node i) ((x.node i).step op ra ord) ++ x.camps
                committed := newCommit op (x.node i) ((x.node i).step op ra ord) ++ x.committed }
  /-- node `i` dies while handling an enabled operation, after `k` storage points, and restarts; nothing is
  acknowledged (a self vote that reached the disk is still recorded as a campaign) -/
  | crash (i : Nat) (op : Op) (ra : List Nat) (ord : List (List Nat)) (src k retain : Nat) (sor : Bool)
      (n : Node) : Enabled x i op src →
      Node.restart (C05.crashDisk (x.node i) op ra ord k) retain sor = some n →
      Trans x { x with rp := crashRp x i op n, camps := campOf i (x.node i) n ++ x.camps }
  /-- the leader `i` puts an append request read from its log on the wire, stamped with a commit index not
  above its own -/
  | send (i : Nat) (q : AppendReq) : i ≠ 0 → (x.node i).role = .leader → ReadFrom (x.node i) q →
      q.ldrCommitIndex ≤ (x.node i).commitIndex →
      Trans x { x with rp := { x.rp with sent := q :: x.rp.sent } }

/-- the replication part of a run is a run of `Replication` -/
theorem trans_rp {x y : Sys} (h : Trans x y) : Replication.Trans x.rp y.rp := by
  cases h with
  | step i op ra ord src he => exact .step i op ra ord src he.rp
  | crash i op ra ord src k retain sor n he hn => exact .crash i op ra ord src k retain sor n he.rp hn
  | send i q hi hr hrf _ => exact .send i q hi hr hrf

/-- Side condition on every state of a run (the `_partial` restriction): every node is bootstrapped, the voters
of its latest configuration are `V`, and that configuration has no pending action. -/
def SideV (V : List Nat) (x : Sys) : Prop :=
  FixedV V x.rp.el ∧ ∀ i, (x.node i).configs.latest.isStable = true

/-- (index, term) keys of the tree, and the tree properties assumed of the initial ledger -/
structure TreeOK (T : List CEntry) : Prop where
  /-- every record lies on a root path of the ledger -/
  pathc : PathClosed T
  /-- the term of an entry is at least the term of its predecessor -/
  tmono : ∀ c ∈ T, c.pt ≤ c.e.term
  /-- the entries of one term lie on one path -/
  tblock : ∀ c ∈ T, ∀ d ∈ T, c.e.term = d.e.term → c.e.index ≤ d.e.index → Anc T (key c) (key d)

/-- Initial states: as `Replication.Init` (every node a follower whose memory matches its disk, logs pairwise
matching as paths of the ledger `created`, nothing sent); the initial tree is closed under predecessors, terms
do not decrease along its paths and the entries of one term lie on one path (e.g. all nodes bootstrapped with
the same configuration entry (1,1)); every log is completely flushed with well-formed segments; nothing is
committed or applied, no vote is cast in the current term, and the new ledgers are empty. -/
structure Init (x : Sys) : Prop where
  rp : Replication.Init x.rp
  tree : TreeOK x.T
  nodes : ∀ i, C06.LogWF (x.node i).log ∧ (x.node i).log.flushed = (x.node i).log.entries.length ∧
    (x.node i).commitIndex = 0 ∧ (x.node i).votedFor = 0 ∧ (x.node i).fsm = {}
  acks : x.acks = []
  camps : x.camps = []
  committed : x.committed = []

/-- States reachable by runs in which `SideV V` holds in every state. -/
inductive ReachableV (V : List Nat) : Sys → Prop
  | init (x : Sys) : Init x → SideV V x → ReachableV V x
  | next (x y : Sys) : ReachableV V x → Trans x y → SideV V y → ReachableV V y

theorem reachable_rp {V : List Nat} {x : Sys} (h : ReachableV V x) : Replication.ReachableV V x.rp := by
  induction h with
  | init x hi hs => exact .init _ hi.rp hs.1
  | next x y _ ht hs ih => exact .next _ _ ih (trans_rp ht) hs.1

/-! ### the notions the invariant talks about -/

/-- **committed**: `a` is an ancestor of (or equal to) an entry a leader of a term `≤ u` committed by the
majority rule -/
def Cmt (x : Sys) (a : Nat × Nat) (u : Nat) : Prop := ∃ m ∈ x.committed, m.2 ≤ u ∧ Anc x.T a m

/-- committed, by a leader of any term -/
def Committed (x : Sys) (a : Nat × Nat) : Prop := ∃ m ∈ x.committed, Anc x.T a m

/-- some entry of a term in `(b.term, u]` does not extend `b` -/
def Unsafe (T : List CEntry) (b : Nat × Nat) (u : Nat) : Prop :=
  ∃ c ∈ T, b.2 < c.e.term ∧ c.e.term ≤ u ∧ ¬ Anc T b (key c)

/-- some entry of a term in `(b.term, u)` does not extend `b` -/
def UnsafeS (T : List CEntry) (b : Nat × Nat) (u : Nat) : Prop :=
  ∃ c ∈ T, b.2 < c.e.term ∧ c.e.term < u ∧ ¬ Anc T b (key c)

/-- an entry of term `t` was created by somebody else than `l` -/
def Other (T : List CEntry) (l t : Nat) : Prop := ∃ c ∈ T, c.e.term = t ∧ c.cr ≠ 0 ∧ c.cr ≠ l

/-- the match index `m` that leader `i` holds for `j` is backed by an acknowledgement of `j` in `i`'s term -/
def Backed (x : Sys) (i j m : Nat) : Prop :=
  ∃ a ∈ x.acks, a.voter = j ∧ a.term = (x.node i).term ∧ m ≤ a.index

/-- the log of node `v` holds the key durably -/
def DurHolds (s : Node) (b : Nat × Nat) : Prop := b.1 ≤ s.log.flushed ∧ Holds s.log.entries b.1 b.2

/-- the voters of candidate `l`'s election of term `t`: itself and those whose vote it counted -/
def Elector (x : Sys) (l t v : Nat) : Prop := v = l ∨ (l, t, v) ∈ x.rp.el.counted

/-- **the up-to-date check, seen from the tree**: whatever voter `v` acknowledged in a term before the campaign
`k` is extended by the log the candidate campaigned with — unless an entry of a term in between does not extend
it, or somebody else created an entry of the campaign's term -/
def UpTo (x : Sys) (k : Camp) (v : Nat) : Prop :=
  ∀ a ∈ x.acks, a.voter = v → a.term < k.term → ∀ b : Nat × Nat, b.2 = a.term → Anc x.T b a.key →
    Anc x.T b k.last ∨ UnsafeS x.T b k.term ∨ Other x.T k.cand k.term

/-! ### the invariant, in groups -/

/-- the tree of created entries -/
structure TreeI (V : List Nat) (x : Sys) : Prop where
  ok : TreeOK x.T
  /-- an entry was created by a node that campaigned for the entry's term, on top of the log it campaigned
  with, after a majority `Q` of voters that have reached that term passed the up-to-date check -/
  crElect : ∀ c ∈ x.T, c.cr ≠ 0 → ∃ k ∈ x.camps, k.cand = c.cr ∧ k.term = c.e.term ∧
    k.lastIndex < c.e.index ∧ (k.lastIndex = 0 ∨ Anc x.T k.last (key c)) ∧
    ∃ Q : List Nat, Q.Nodup ∧ (∀ v ∈ Q, v ∈ V) ∧ 2 * Q.length > V.length ∧
      ∀ v ∈ Q, c.e.term ≤ (x.node v).term ∧ UpTo x k v
  /-- while its creator is leader of its term the entry is in the creator's log -/
  ownLog : ∀ c ∈ x.T, c.cr ≠ 0 → (x.node c.cr).role = .leader → (x.node c.cr).term = c.e.term →
    Holds (x.node c.cr).log.entries c.e.index c.e.term

/-- the nodes -/
structure NodeI (x : Sys) : Prop where
  lwf : ∀ i, C06.LogWF (x.node i).log
  /-- no log entry has a term above the node's -/
  termLe : ∀ i, ∀ e ∈ (x.node i).log.entries, e.term ≤ (x.node i).term
  /-- an entry that is not flushed yet was created by the node itself -/
  unfl : ∀ i k, (x.node i).log.flushed < k → k ≤ (x.node i).log.entries.length →
    ∃ c ∈ x.T, c.e.index = k ∧ c.e.term = termAt (x.node i).log.entries k ∧ c.cr = i
  /-- a candidate or leader is a voter of its latest configuration -/
  roleVoter : ∀ i, (x.node i).role ≠ .follower → (x.node i).configs.latest.isVoter (x.node i).nid = true
  /-- a candidate or leader has a recorded campaign for its term; its log still holds (a candidate's: ends with)
  the coordinates it campaigned with -/
  camp : ∀ i, (x.node i).role ≠ .follower → ∃ k ∈ x.camps, k.cand = i ∧ k.term = (x.node i).term ∧
    k.lastIndex ≤ (x.node i).log.entries.length ∧
    (1 ≤ k.lastIndex → termAt (x.node i).log.entries k.lastIndex = k.lastTerm) ∧
    ((x.node i).role = .candidate → k.lastIndex = (x.node i).log.entries.length)
  /-- the leader's record -/
  ldr : ∀ i, (x.node i).role = .leader → LeadOK (Backed x i) (x.node i)

/-- requests on the wire -/
structure SentI (V : List Nat) (x : Sys) : Prop where
  won : ∀ q ∈ x.rp.sent, q.src ≠ 0 ∧ q.src ∈ V ∧ (q.src, q.term) ∈ x.rp.el.won ∧ q.term ≤ (x.node q.src).term ∧
    ((x.node q.src).role = .candidate → q.term < (x.node q.src).term)
  term : ∀ q ∈ x.rp.sent, (∀ e ∈ q.entries, e.term ≤ q.term) ∧ q.prevLogTerm ≤ q.term
  /-- the request lies on the path to an entry of its own term -/
  anc : ∀ q ∈ x.rp.sent, ∃ c ∈ x.T, c.e.term = q.term ∧ (∀ e ∈ q.entries, Anc x.T (e.index, e.term) (key c)) ∧
    (1 ≤ q.prevLogIndex → Anc x.T (q.prevLogIndex, q.prevLogTerm) (key c))
  /-- what lies at or below the request's commit index is committed by a leader of a term ≤ the request's -/
  cmt : ∀ q ∈ x.rp.sent, (∀ e ∈ q.entries, e.index ≤ q.ldrCommitIndex → Cmt x (e.index, e.term) q.term) ∧
    (1 ≤ q.prevLogIndex → q.prevLogIndex ≤ q.ldrCommitIndex → Cmt x (q.prevLogIndex, q.prevLogTerm) q.term)

/-- acknowledgements -/
structure AckI (x : Sys) : Prop where
  wf : ∀ a ∈ x.acks, 1 ≤ a.index ∧ a.term ≤ (x.node a.voter).term ∧ a.eterm ≤ a.term ∧
    ∃ c ∈ x.T, key c = a.key
  /-- where it comes from: a request of that term whose last coordinates it names, sent by another node — or
  the leader of that term itself -/
  src : ∀ a ∈ x.acks,
    (∃ q ∈ x.rp.sent, q.term = a.term ∧ q.src ≠ a.voter ∧ a.index = q.prevLogIndex + q.entries.length ∧
      ((∃ e ∈ q.entries, e.index = a.index ∧ e.term = a.eterm) ∨
        (q.entries = [] ∧ q.prevLogTerm = a.eterm))) ∨
    (a.eterm = a.term ∧ ∃ c ∈ x.T, key c = a.key ∧ c.cr = a.voter ∧ c.cr ≠ 0)
  /-- **stability**: an acknowledged entry of the acknowledgement's own term is still durably in the voter's
  log, unless some entry of a later term (not above the voter's) does not extend it -/
  stable : ∀ a ∈ x.acks, ∀ b : Nat × Nat, b.2 = a.term → Anc x.T b a.key →
    DurHolds (x.node a.voter) b ∨ Unsafe x.T b (x.node a.voter).term

/-- campaigns, votes and elections -/
structure VoteI (V : List Nat) (x : Sys) : Prop where
  campUniq : ∀ k ∈ x.camps, ∀ k' ∈ x.camps, k.cand = k'.cand → k.term = k'.term → k = k'
  campWf : ∀ k ∈ x.camps, k.cand ≠ 0 ∧ k.term ≤ (x.node k.cand).term ∧ k.lastTerm < k.term ∧
    ((k.lastIndex = 0 ∧ k.lastTerm = 0) ∨ ∃ c ∈ x.T, key c = k.last)
  /-- a vote for somebody else was asked for by a recorded campaign -/
  voteCamp : ∀ v, (x.node v).votedFor ≠ 0 → (x.node v).votedFor ≠ v →
    ∃ k ∈ x.camps, k.cand = (x.node v).votedFor ∧ k.term = (x.node v).term
  /-- **the up-to-date check, for the vote a node holds**: what the voter acknowledged in an earlier term is
  extended by the candidate's log, unless a later entry does not extend it -/
  voteInv : ∀ v, (x.node v).votedFor ≠ 0 → ∀ k ∈ x.camps, k.cand = (x.node v).votedFor →
    k.term = (x.node v).term → ∀ a ∈ x.acks, a.voter = v → a.term < k.term →
    ∀ b : Nat × Nat, b.2 = a.term → Anc x.T b a.key → Anc x.T b k.last ∨ Unsafe x.T b k.term
  /-- the same for every recorded grant -/
  grantInv : ∀ g ∈ x.rp.el.grants, ∀ k ∈ x.camps, k.cand = g.cand → k.term = g.term →
    ∀ a ∈ x.acks, a.voter = g.voter → a.term < k.term →
    ∀ b : Nat × Nat, b.2 = a.term → Anc x.T b a.key → Anc x.T b k.last ∨ Unsafe x.T b k.term
  /-- … and, strictly, for the voters a candidate counted (itself included) -/
  electInv : ∀ k ∈ x.camps, ∀ v, Elector x k.cand k.term v → UpTo x k v
  countedGrant : ∀ e ∈ x.rp.el.counted,
    ({ voter := e.2.2, term := e.2.1, cand := e.1 } : C01.Grant) ∈ x.rp.el.grants
  /-- a grant answers a recorded campaign -/
  grantCamp : ∀ g ∈ x.rp.el.grants, ∃ k ∈ x.camps, k.cand = g.cand ∧ k.term = g.term

/-- commitment -/
structure CmtI (V : List Nat) (x : Sys) : Prop where
  /-- a committed entry is an entry of the tree acknowledged in its own term by a majority -/
  quorum : ∀ m ∈ x.committed, (∃ c ∈ x.T, key c = m ∧ c.cr ≠ 0) ∧
    ∃ Q : List Nat, Q.Nodup ∧ (∀ v ∈ Q, v ∈ V) ∧ 2 * Q.length > V.length ∧
      ∀ v ∈ Q, ∃ a ∈ x.acks, a.voter = v ∧ a.term = m.2 ∧ Anc x.T m a.key
  /-- **leader completeness, tree form**: every entry of a later term extends every committed entry -/
  lc : ∀ m ∈ x.committed, ∀ c ∈ x.T, m.2 < c.e.term → Anc x.T m (key c)
  /-- every node's commit index covers only committed entries -/
  cc : ∀ i k, 1 ≤ k → k ≤ (x.node i).commitIndex → k ≤ (x.node i).log.entries.length ∧
    Cmt x (k, termAt (x.node i).log.entries k) (x.node i).term

/-- **the invariant** (on top of `Replication.Inv V x.rp`, the log-matching invariant of the replication system) -/
structure CInv (V : List Nat) (x : Sys) : Prop where
  rp : Replication.Inv V x.rp
  tree : TreeI V x
  node : NodeI x
  sent : SentI V x
  ack : AckI x
  vote : VoteI V x
  cmt : CmtI V x


/-! ### the initial states satisfy the invariant -/

theorem inv_init (V : List Nat) (x : Sys) (h : Init x) : CInv V x := by
  have hr := Replication.inv_init V x.rp h.rp
  have hrole : ∀ i, (x.node i).role = .follower := fun i => (h.rp.el.1 i).2.2
  have hcr : ∀ c ∈ x.T, c.cr = 0 := h.rp.cr0
  refine ⟨hr, ⟨h.tree, ?_, ?_⟩, ⟨fun i => (h.nodes i).1, ?_, ?_, ?_, ?_, ?_⟩, ⟨?_, ?_, ?_, ?_⟩, ⟨?_, ?_, ?_⟩,
    ⟨?_, ?_, ?_, ?_, ?_, ?_, ?_, ?_⟩, ⟨?_, ?_, ?_⟩⟩
  · intro c hc h0; exact absurd (hcr c hc) h0
  · intro c hc h0; exact absurd (hcr c hc) h0
  · intro i e he
    obtain ⟨c, hc, hce⟩ := C04Sys.chain_mem (h.rp.nodes i).2 e he
    rw [← hce]; exact h.rp.terms c hc i
  · intro i k hk hk2
    rw [(h.nodes i).2.1] at hk; omega
  · intro i hi; exact absurd (hrole i) hi
  · intro i hi; exact absurd (hrole i) hi
  · intro i hi; rw [hrole i] at hi; cases hi
  · intro q hq; rw [h.rp.sent] at hq; cases hq
  · intro q hq; rw [h.rp.sent] at hq; cases hq
  · intro q hq; rw [h.rp.sent] at hq; cases hq
  · intro q hq; rw [h.rp.sent] at hq; cases hq
  · intro a ha; rw [h.acks] at ha; cases ha
  · intro a ha; rw [h.acks] at ha; cases ha
  · intro a ha; rw [h.acks] at ha; cases ha
  · intro k hk; rw [h.camps] at hk; cases hk
  · intro k hk; rw [h.camps] at hk; cases hk
  · intro v hv; exact absurd (h.nodes v).2.2.2.1 hv
  · intro v hv; exact absurd (h.nodes v).2.2.2.1 hv
  · intro g hg; rw [h.rp.el.2.1] at hg; cases hg
  · intro k hk; rw [h.camps] at hk; cases hk
  · intro e he; rw [h.rp.el.2.2.1] at he; cases he
  · intro g hg; rw [h.rp.el.2.1] at hg; cases hg
  · intro m hm; rw [h.committed] at hm; cases hm
  · intro m hm; rw [h.committed] at hm; cases hm
  · intro i k hk hk2; rw [(h.nodes i).2.2.1] at hk2; omega

/-! ### how a transition extends a state -/

/-- `y` extends `x`: every ledger only grew, only node `i` changed, terms did not decrease, and the tree of `y`
still holds at most one record per (index, term) -/
structure Ext (x y : Sys) (i : Nat) : Prop where
  other : ∀ j, j ≠ i → y.node j = x.node j
  term : ∀ j, (x.node j).term ≤ (y.node j).term
  T : ∀ c ∈ x.T, c ∈ y.T
  sent : ∀ q ∈ x.rp.sent, q ∈ y.rp.sent
  acks : ∀ a ∈ x.acks, a ∈ y.acks
  camps : ∀ k ∈ x.camps, k ∈ y.camps
  committed : ∀ m ∈ x.committed, m ∈ y.committed
  grants : ∀ g ∈ x.rp.el.grants, g ∈ y.rp.el.grants
  counted : ∀ e ∈ x.rp.el.counted, e ∈ y.rp.el.counted
  won : ∀ e ∈ x.rp.el.won, e ∈ y.rp.el.won
  uniq : Uniq y.T
  pathc : PathClosed x.T

theorem Ext.anc {x y : Sys} {i : Nat} (h : Ext x y i) {a c : Nat × Nat} (ha : Anc x.T a c) : Anc y.T a c :=
  ha.mono h.T

theorem Ext.not_anc {x y : Sys} {i : Nat} (h : Ext x y i) {b : Nat × Nat} {c : CEntry} (hc : c ∈ x.T)
    (hn : ¬ Anc x.T b (key c)) : ¬ Anc y.T b (key c) :=
  not_anc_mono h.T h.uniq (h.pathc c hc) hn

theorem Ext.unsafeU {x y : Sys} {i : Nat} (h : Ext x y i) {b : Nat × Nat} {u u' : Nat} (hu : u ≤ u')
    (hn : Unsafe x.T b u) : Unsafe y.T b u' := by
  obtain ⟨c, hc, h1, h2, h3⟩ := hn
  exact ⟨c, h.T c hc, h1, Nat.le_trans h2 hu, h.not_anc hc h3⟩

theorem Ext.unsafeS {x y : Sys} {i : Nat} (h : Ext x y i) {b : Nat × Nat} {u : Nat}
    (hn : UnsafeS x.T b u) : UnsafeS y.T b u := by
  obtain ⟨c, hc, h1, h2, h3⟩ := hn
  exact ⟨c, h.T c hc, h1, h2, h.not_anc hc h3⟩

theorem Ext.other_cr {x y : Sys} {i : Nat} (h : Ext x y i) {l t : Nat} (hn : Other x.T l t) : Other y.T l t := by
  obtain ⟨c, hc, h1, h2, h3⟩ := hn
  exact ⟨c, h.T c hc, h1, h2, h3⟩

theorem Ext.cmt {x y : Sys} {i : Nat} (h : Ext x y i) {a : Nat × Nat} {u u' : Nat} (hu : u ≤ u')
    (hc : Cmt x a u) : Cmt y a u' := by
  obtain ⟨m, hm, h1, h2⟩ := hc
  exact ⟨m, h.committed m hm, Nat.le_trans h1 hu, h.anc h2⟩

theorem unsafe_of_strict {T : List CEntry} {b : Nat × Nat} {u : Nat} (h : UnsafeS T b u) : Unsafe T b u := by
  obtain ⟨c, hc, h1, h2, h3⟩ := h
  exact ⟨c, hc, h1, Nat.le_of_lt h2, h3⟩

end Commit
end Raft
