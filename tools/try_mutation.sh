#!/bin/bash
# usage: try_mutation.sh <patch.diff> <prop> [<prop>...]   — applies the patch to /repo, runs the quick checks, reverts.
patch=$1; shift
cd /repo || exit 2
if [ -n "$(git status --porcelain --untracked-files=no)" ]; then echo "/repo not clean"; exit 2; fi
git apply "$patch" || { echo "patch does not apply"; exit 2; }
trap 'git -C /repo checkout -- . ; echo reverted' EXIT
go build ./... || { echo "does not build"; exit 2; }
cd /verif
for p in "$@"; do
  start=$(date +%s)
  out=$(VERIF_SEED=${VERIF_SEED:-1} ./check $p 2>&1 | tail -3)
  echo "== $p ($(( $(date +%s) - start ))s): $out"
done
