#!/bin/bash
# usage: coverage.sh  — which statements of the library do the quick-tier engines execute? Builds every engine with
# Go's coverage instrumentation (-cover -coverpkg), runs the quick configuration once (seed 1) and prints per-function
# coverage of the library, lowest first, plus the uncovered functions. A self-measurement of generator quality, not evidence.
export GOFLAGS=-mod=mod GOPROXY=off GOSUMDB=off GOTOOLCHAIN=local CGO_ENABLED=0
C=/verif/build/cov; rm -rf $C; mkdir -p $C/bin $C/data $C/rp
cp /repo/go.sum /verif/go/go.sum
cd /verif/go && for e in nodediff clustersim repldiff probelive logdiff codecdiff conndiff; do
  go build -cover -coverpkg=./...,github.com/santhosh-tekuri/raft/... -tags verif -o $C/bin/$e ./$e 2>&1 | grep -v '^warning'; done
export GOCOVERDIR=$C/data; D=/verif/lean/.lake/build/bin/driver
$C/bin/nodediff -driver $D -seed 1 -seqs 1200 -steps 40 -workers 8 -replaydir $C/rp -report $C/r1.json | tail -1
$C/bin/clustersim -driver $D -seed 1 -runs 48 -events 1000 -workers 8 -replaydir $C/rp -report $C/r2.json | tail -1 | cut -c1-90
for e in repldiff probelive; do $C/bin/$e -driver $D -seed 1 -tier quick -replaydir $C/rp -report $C/r_$e.json | tail -1; done
for e in logdiff codecdiff conndiff; do $C/bin/$e -driver $D -seed 1 -tier quick -report $C/r_$e.json | tail -1 | cut -c1-90; done
go tool covdata textfmt -i=$C/data -o $C/cover.txt
go tool cover -func=$C/cover.txt | grep 'santhosh-tekuri/raft' | grep -v 'verif_\|/cmd/\|/example/\|trace.go' |
  awk '{gsub("github.com/santhosh-tekuri/raft/","",$1); print $NF, $1, $2}' | sort -n > $C/by_function.txt
echo "functions never executed: $(grep -c '^0.0%' $C/by_function.txt); below 70%: $(awk '$1+0<70' $C/by_function.txt | wc -l); total: $(wc -l < $C/by_function.txt)"
go tool cover -func=$C/cover.txt | grep 'santhosh-tekuri/raft' | grep -v 'verif_\|/cmd/\|/example/\|trace.go' | awk '{print $NF}' | tr -d '%' | awk '{s+=$1;n++} END {printf "mean per-function coverage %.1f%% over %d functions\n", s/n, n}'
echo "details: $C/by_function.txt"
