#!/usr/bin/env python3
"""Run the quick check of each seeded change's property against /repo with the change applied, record the
outcome in seeded/<id>/meta.json, revert. usage: eval_seeded.py [--tier quick|thorough] [<id> ...] (default: all).
/repo must be clean; the patch is applied with `git -C /repo apply` and removed with `git -C /repo checkout -- .`."""
import json, os, re, subprocess, sys, time, glob
ROOT = os.path.dirname(os.path.dirname(os.path.abspath(__file__)))
args = sys.argv[1:]
tier = "quick"
if args[:1] == ["--tier"]:
    tier = args[1]; args = args[2:]
ids = args or sorted(os.path.basename(os.path.dirname(m)) for m in glob.glob(os.path.join(ROOT, "seeded/*/meta.json")))
env = dict(os.environ, GOFLAGS="-mod=mod", GOPROXY="off", GOSUMDB="off", GOTOOLCHAIN="local")
for id_ in ids:
    d = os.path.join(ROOT, "seeded", id_)
    meta = json.load(open(os.path.join(d, "meta.json")))
    if subprocess.run(["git", "-C", "/repo", "status", "--porcelain", "--untracked-files=no"], capture_output=True, text=True).stdout.strip():
        print("/repo not clean"); sys.exit(2)
    if subprocess.run(["git", "-C", "/repo", "apply", os.path.join(d, "patch.diff")]).returncode != 0:
        print(id_, "patch does not apply"); continue
    evp = os.path.join(ROOT, "evidence", meta["property"] + ".json")
    saved = open(evp).read() if os.path.exists(evp) else None
    try:
        t0 = time.time()
        r = subprocess.run(["./check", meta["property"], "--tier", tier], cwd=ROOT, env=dict(env, VERIF_SEED=os.environ.get("VERIF_SEED", "1")),
                           capture_output=True, text=True)
        out = r.stdout.strip().splitlines()
        dt = int(time.time() - t0)
    finally:
        subprocess.run(["git", "-C", "/repo", "checkout", "--", "."])
        if saved is not None:
            open(evp, "w").write(saved)  # evidence files describe the unchanged tree only
    viol = next((l for l in out if l.startswith("VIOLATION")), None)
    chk = next((l for l in out if l.startswith("check ")), "")
    eng = ""
    if viol:
        m = re.search(r"replay=(\S+)", viol)
        for e in ("nodediff", "clustersim", "repldiff", "logdiff", "codecdiff", "conndiff"):
            if m and e in m.group(1):
                eng = e
        if m and "corpus" in m.group(1):
            eng = "nodediff (corpus replay)"
        if m and "-lean" in m.group(1):
            eng = "Lean obligation"
        if m and "-regenerated-" in m.group(1):
            eng = "regenerated theorem (go/astfacts) + livestress replay" if not viol.endswith("no-failing-input-found") else "regenerated theorem (go/astfacts)"
        if not eng and any("scenario" in l for l in out):
            eng = "scenario"
    key = "" if tier == "quick" else "_" + tier
    meta["check" + key] = f"./check {meta['property']} --tier {tier} (VERIF_SEED={os.environ.get('VERIF_SEED', '1')})"
    meta["caught_by" + key] = (eng + ("" if "regenerated" in eng else " engine")) if viol else "NOT caught"
    txt = re.sub(r"^check C\d\d: ", "", chk)[:200]
    meta["reported" + key] = ("check passed" if not viol else
                              ("correspondence break, no-failing-input-found: " if viol.endswith("no-failing-input-found") else "failing input: ") + txt)
    meta["time" + key] = f"{dt} s"
    json.dump(meta, open(os.path.join(d, "meta.json"), "w"), indent=1, ensure_ascii=False)
    open(os.path.join(d, "result.txt" if tier == "quick" else f"result_{tier}.txt"), "w").write("\n".join(out[-4:]) + "\n")
    print(id_, meta["caught_by" + key], "|", meta["reported" + key][:110], "|", dt, "s", flush=True)
