#!/usr/bin/env python3
"""Regenerate MANIFEST.json from props.json (per-property metadata) and properties.jsonl."""
import json, os
ROOT = os.path.dirname(os.path.dirname(os.path.abspath(__file__)))
props = json.load(open(os.path.join(ROOT, "props.json")))
allids = [json.loads(l)["id"] for l in open(os.path.join(ROOT, "properties.jsonl"))]
hooks = json.load(open(os.path.join(ROOT, "hooks.json")))
engines = {}
checks = []
for pid in allids:
    if pid not in props or props[pid].get("disabled"):
        continue
    p = props[pid]
    for e in p["engines"]:
        if pid not in engines.setdefault(e["name"], []):
            engines[e["name"]].append(pid)
    checks.append({
        "property_id": pid,
        "quick_cmd": f"./check {pid} --tier quick",
        "thorough_cmd": f"./check {pid} --tier thorough",
        "evidence_file": f"/verif/evidence/{pid}.json",
        "replay_cmd_template": f"./check {pid} --replay {{path}}",
        "engine": "+".join(e["name"] + ("(race)" if e.get("race") else "") for e in p["engines"]),
        "level_claimed": {"category": p.get("level", "proof"), "text": p["level_text"], "design_ref": f"DESIGN.md section 3, {pid}"},
        "level_note": p["level_note"],
        "technique": p.get("technique", "Lean 4 proof on an executable model + differential correspondence with the Go code"),
    })
kinds = {
    "nodediff": "differential step validation of one real node (all handlers, role transitions, crash-point restarts; the public Config editing helpers) against the Lean model Raft.Node.step / Raft.Config.applyEdit, with property monitors on the real execution",
    "clustersim": "several real nodes scheduled by the harness (message delivery, loss, duplication, crashes); every node step validated against the model, global predicates evaluated on the real states",
    "codecdiff": "differential encode/decode of every wire/disk format against the Lean codec model",
    "logdiff": "differential operation programs + crash images on the real segmented log against the Lean SegLog/SegDisk model",
    "repldiff": "differential step validation of replication.go's step functions (writeAppendEntriesReq, onAppendEntriesResp, sendInstallSnapReq, onLeaderUpdate) on a real replication object over an in-memory connection against the Lean model Raft.Repl, with request-content monitors",
    "probelive": "the REAL control flow of replication.replicate() in its own goroutines over a scripted in-memory connection against a real follower node: probe loop, install fall-back and the pipelining phase (writer, reader, drains, every exit; episodes in child processes, race-detector variant); the probe phase is compared exchange by exchange with the Lean model Raft.Repl.probe/replicate, the pipeline is judged by monitors; bounded runs with watchdogs",
    "astfacts": "TRANSLATOR of the regenerated tier: go/ast -> Lean definitions (channel skeletons of goroutines as control-flow graphs, channel census, safeTimer receive sites, timing expressions, persist/request order of candidate.startElection) written into lean/RaftGen/Gen on every run; the theorems of lean/RaftGen/Props are re-checked against them",
    "livestress": "search aid after a regenerated theorem broke: replays the schedule / timing on the real code (leader.notifyFlr against receiving goroutines, replication.runLoop against an unreachable peer, replication.deadlineSize); never decides a property on the unchanged tree",
    "scenario": "directed histories on the real code that proof attempts or misses produced (F19: delayed compaction under a live log view; pairing: a connection on which an RPC was given up is never used again); regression guards",
    "conndiff": "differential identity-handshake / lock scenarios over net.Pipe against the Lean connection automaton",
}
for n, ps in {"astfacts": ["C05", "C15", "C17"], "livestress": ["C15", "C17"]}.items():
    engines.setdefault(n, set()).update(ps)
for pid, p in props.items():
    for sc in p.get("scenarios", []):
        engines.setdefault("scenario", set()).add(pid)
m = {
    "version": 1,
    "setup_cmd": "/verif/setup.sh",
    "hooks": hooks,
    "engines": [{"name": n, "path": f"go/{n}", "serves_properties": sorted(v), "kind_free_text": kinds.get(n, "")} for n, v in sorted(engines.items())],
    "checks": checks,
    "not_applicable": [{"property_id": pid, "reason": props.get(pid, {}).get("na_reason", "check under construction in this round: model slice and theorems not yet registered (see DESIGN.md section 7)")}
                       for pid in allids if pid not in props or props[pid].get("disabled")],
    "notes": "All checks: Lean theorems audited per run (`#print axioms`), engines rebuilt from /repo's working tree with -tags verif; for C05, C15 and C17 part of the model (lean/RaftGen/Gen) is regenerated from the Go source on every run by go/astfacts and the theorems about it re-checked. Known findings: KNOWN_FINDINGS.json (F1-F21, all repaired by fix: commits). See DESIGN.md section 7.",
}
json.dump(m, open(os.path.join(ROOT, "MANIFEST.json"), "w"), indent=1)
print("checks:", [c["property_id"] for c in checks])
print("n/a:", [x["property_id"] for x in m["not_applicable"]])
