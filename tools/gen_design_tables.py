#!/usr/bin/env python3
"""Rewrite the generated blocks of DESIGN.md (between <!-- BEGIN x --> / <!-- END x --> markers):
status  : per-property status from props.json + lean/obligations.json
seeded  : table of seeded changes from seeded/*/meta.json"""
import json, os, re, glob
ROOT = os.path.dirname(os.path.dirname(os.path.abspath(__file__)))
props = json.load(open(os.path.join(ROOT, "props.json")))
obl = json.load(open(os.path.join(ROOT, "lean/obligations.json")))
titles = {}
for l in open(os.path.join(ROOT, "properties.jsonl")):
    d = json.loads(l); titles[d["id"]] = d["title"]

def status():
    out = ["| id | theorems | engines (tie + monitors) | proved for all inputs / histories | decided on explored executions only (partial) |",
           "|---|---|---|---|---|"]
    for pid in sorted(titles):
        p = props.get(pid)
        if not p:
            out.append(f"| {pid} | – | – | not registered | |"); continue
        txt = p["level_text"]
        if "PARTIAL:" in txt:
            a, b = txt.split("PARTIAL:", 1)
        else:
            a, b = txt, "—"
        a = a.strip().replace("|", "\\|"); b = b.strip().replace("|", "\\|")
        out.append(f"| {pid} | {len(obl.get(pid, []))} | {', '.join(e['name'] for e in p['engines'])} | {a} | {b} |")
    return "\n".join(out)

def seeded():
    out = ["| seeded change | property | what it changes | caught by (quick tier) | how reported | time |",
           "|---|---|---|---|---|---|"]
    for m in sorted(glob.glob(os.path.join(ROOT, "seeded/*/meta.json"))):
        d = json.load(open(m))
        out.append(f"| `seeded/{os.path.basename(os.path.dirname(m))}` | {d.get('property')} | {d.get('summary','').replace('|','/')} | {d.get('caught_by','').replace('|','/')} | {d.get('reported','').replace('|','/')} | {d.get('time','')} |")
    return "\n".join(out)

path = os.path.join(ROOT, "DESIGN.md")
s = open(path).read()
for name, fn in (("status", status), ("seeded", seeded)):
    b, e = f"<!-- BEGIN {name} -->", f"<!-- END {name} -->"
    if b in s and e in s:
        s = s[:s.index(b) + len(b)] + "\n" + fn() + "\n" + s[s.index(e):]
open(path, "w").write(s)
print("DESIGN.md tables regenerated")
