#!/bin/bash
# usage: seed_sweep.sh <first-seed> <last-seed>  — false-alarm sweep on the UNCHANGED tree: builds every engine once
# from /repo (tag verif) and runs the quick-size configuration for each seed; prints one line per run that reports
# a disagreement. Nothing here is evidence; it is a self-test of the machinery.
export GOFLAGS=-mod=mod GOPROXY=off GOSUMDB=off GOTOOLCHAIN=local CGO_ENABLED=0
D=/verif/build/sweep; mkdir -p $D/replays
cp /repo/go.sum /verif/go/go.sum
cd /verif/go && for e in nodediff clustersim repldiff probelive logdiff codecdiff conndiff; do go build -tags verif -o $D/$e ./$e || exit 2; done
DRV=/verif/lean/.lake/build/bin/driver
bad=0
for s in $(seq $1 $2); do
  for run in "nodediff -seqs 1200 -steps 40 -workers 8" "clustersim -runs 48 -events 1000 -workers 8" "repldiff" "probelive" "logdiff" "codecdiff" "conndiff"; do
    set -- $run; e=$1; shift
    extra=""; case $e in nodediff|clustersim|repldiff|probelive) extra="-replaydir $D/replays";; esac
    out=$($D/$e -driver $DRV -seed $s -tier quick -report $D/rep_${e}_$s.json $extra "$@" 2>&1 | tail -1)
    n=$(python3 -c "import json,sys; print(len(json.load(open('$D/rep_${e}_$s.json')).get('disagreements',[])))" 2>/dev/null || echo "?")
    if [ "$n" != "0" ]; then echo "SEED $s $e: $n disagreement(s): $out"; bad=1; else rm -f $D/rep_${e}_$s.json; fi
  done
  echo "seed $s done"
done
exit $bad
