#!/usr/bin/env python3
"""Regenerate lean/obligations.json from the `#print axioms <name>` lines that end every Props file.
Props/Cnn*.lean belongs to property Cnn (several files per property are allowed). A line
`#print axioms X -- also C11 C17` attaches the theorem to further properties as well.
The statement text is the doc comment preceding the theorem (first 300 characters)."""
import re, json, glob, os
ROOT = os.path.dirname(os.path.dirname(os.path.abspath(__file__)))
out = {}
lemma_src = {lf: open(lf).read() for lf in glob.glob(os.path.join(ROOT, "lean/RaftVerif/Lemmas/*.lean"))}
# witness runs written by the vacuity audit: non-trivial reachable states of each cluster-level system on which the
# theorems are instantiated; they are obligations of the properties whose theorems they witness
AUDIT = {"AuditSys": ["C02", "C01", "C03", "C04", "C06", "C07", "C10", "C16", "C19"],
         "AuditSnap": ["C09", "C02", "C03", "C04"], "AuditSnap2": ["C09", "C02", "C03", "C04"],
         "AuditMember": ["C08", "C01", "C02"]}
files = sorted(glob.glob(os.path.join(ROOT, "lean/RaftVerif/Props/C*.lean"))) + \
    sorted(glob.glob(os.path.join(ROOT, "lean/RaftVerif/Props/Audit*.lean"))) + \
    sorted(glob.glob(os.path.join(ROOT, "lean/RaftGen/Props/C*.lean")))
for f in files:
    base = os.path.basename(f)[:-5]
    pid = base[:3]
    extra = []
    if base in AUDIT:
        pid, extra = AUDIT[base][0], AUDIT[base][1:]
    src = open(f).read()
    gen = "/RaftGen/" in f  # theorems about definitions REGENERATED from the Go source on every run (translator tie)
    module = ("RaftGen.Props." if gen else "RaftVerif.Props.") + base
    opens = re.findall(r"^open ([\w.]+)\s*$", src, re.M)
    for m0 in re.finditer(r"^#print axioms ([\w.'?!]+)[ \t]*(?:--[ \t]*also[ \t]+([C\d ]+))?", src, re.M):
        n, also = m0.group(1), (m0.group(2) or "").split()
        short = n.split(".")[-1]
        full = n
        if not (n.startswith("Raft.") or n.startswith("RaftVerif.")):
            # unqualified: inside a namespace block -> that namespace; after the `end`s -> the last `open`
            stack = []
            for ln in src[:m0.start()].splitlines():
                mm = re.match(r"^namespace\s+([\w.]+)", ln)
                if mm:
                    stack.append(mm.group(1))
                mm = re.match(r"^end\s+([\w.]+)", ln)
                if mm and stack and stack[-1] == mm.group(1):
                    stack.pop()
            if stack:
                full = ".".join(stack) + "." + n
            elif opens:
                full = opens[-1] + "." + n
        pat = r"theorem\s+(?:[\w.]+\.)?" + re.escape(short) + r"(?![\w'?!])"
        m = re.search(r"/--((?:(?!-/).)*)-/\s*(?:@\[[^\]]*\]\s*)?(?:private\s+)?" + pat, src, re.S)
        mod = module
        if not re.search(pat, src):
            for lf, ls in lemma_src.items():
                if re.search(pat, ls):
                    mod = "RaftVerif.Lemmas." + os.path.basename(lf)[:-5]
                    m = re.search(r"/--((?:(?!-/).)*)-/\s*(?:@\[[^\]]*\]\s*)?(?:private\s+)?" + pat, ls, re.S)
                    break
        stmt = re.sub(r"\s+", " ", m.group(1)).strip()[:300] if m else ""
        for p in [pid] + also + extra:
            lst = out.setdefault(p, [])
            if not any(o["name"] == full for o in lst):
                lst.append(dict({"name": full, "module": mod, "statement": stmt}, **({"gen": True} if gen else {})))
json.dump(out, open(os.path.join(ROOT, "lean/obligations.json"), "w"), indent=1)
print({k: len(v) for k, v in sorted(out.items())})
