#!/usr/bin/env python3
"""Regenerate lean/obligations.json from the `#print axioms <name>` lines that end every Props file.
The statement text is the doc comment preceding the theorem (first 300 characters)."""
import re, json, glob, os
ROOT = os.path.dirname(os.path.dirname(os.path.abspath(__file__)))
out = {}
for f in sorted(glob.glob(os.path.join(ROOT, "lean/RaftVerif/Props/C*.lean"))):
    pid = os.path.basename(f)[:-5]
    src = open(f).read()
    module = "RaftVerif.Props." + pid
    opens = re.findall(r"^open ([\w.]+)\s*$", src, re.M)
    names = re.findall(r"^#print axioms ([\w.'?!]+)", src, re.M)
    obs = []
    for n in names:
        short = n.split(".")[-1]
        full = n
        if "." not in n or not (n.startswith("Raft") or n.startswith("RaftVerif")):
            # opened namespace: qualify with the last `open`
            if opens:
                full = opens[-1] + "." + n
        m = re.search(r"/--((?:(?!-/).)*)-/\s*(?:@\[[^\]]*\]\s*)?(?:private\s+)?theorem\s+" + re.escape(short) + r"\b", src, re.S)
        stmt = re.sub(r"\s+", " ", m.group(1)).strip()[:300] if m else ""
        mod = module
        # theorems that live in lemma modules
        for lf in glob.glob(os.path.join(ROOT, "lean/RaftVerif/Lemmas/*.lean")):
            if re.search(r"theorem\s+" + re.escape(short) + r"\b", open(lf).read()) and not re.search(r"theorem\s+" + re.escape(short) + r"\b", src):
                mod = "RaftVerif.Lemmas." + os.path.basename(lf)[:-5]
        obs.append({"name": full, "module": mod if mod != module else module, "statement": stmt})
    out[pid] = obs
json.dump(out, open(os.path.join(ROOT, "lean/obligations.json"), "w"), indent=1)
print({k: len(v) for k, v in out.items()})
