#!/bin/bash
# usage: confirm_seeded.sh <seeded-id>...   — in a scratch worktree of /repo HEAD: run the demo test(s) without the
# change (must pass) and with it (must fail); writes seeded/<id>/confirm.json. Removes the worktree afterwards.
export GOFLAGS=-mod=mod GOPROXY=off GOSUMDB=off GOTOOLCHAIN=local
for id in "$@"; do
  d=/verif/seeded/$id
  wt=/tmp/confirm-$id
  git -C /repo worktree remove --force $wt 2>/dev/null
  git -C /repo worktree add --detach $wt HEAD -q || continue
  dirs=""
  for f in $d/*_test.go; do
    pkgdir=$wt
    if grep -q '^package log' $f; then pkgdir=$wt/log; fi
    cp $f $pkgdir/zz_$(basename $f)
    case " $dirs " in *" $pkgdir "*) ;; *) dirs="$dirs $pkgdir";; esac
  done
  tests=$(grep -h '^func Test' $d/*_test.go | sed 's/func \(Test[A-Za-z0-9_]*\).*/\1/' | paste -sd'|')
  runall() { rc=0; for p in $dirs; do (cd $p && go test -vet=off -count=1 -timeout 10m -run "^($tests)\$" . >> $1 2>&1) || rc=1; done; return $rc; }
  : > $wt/without.log; : > $wt/with.log
  runall $wt/without.log; rc0=$?
  (cd $wt && git apply $d/patch.diff) || echo "patch does not apply" >> $wt/without.log
  runall $wt/with.log; rc1=$?
  python3 - "$id" "$rc0" "$rc1" "$tests" $wt <<'PY'
import json,sys
id_,rc0,rc1,tests,wt=sys.argv[1:6]
tail=lambda p: open(p,errors='replace').read()[-1500:]
json.dump({"id":id_,"tests":tests,"without_change_exit":int(rc0),"with_change_exit":int(rc1),
 "confirmed": int(rc0)==0 and int(rc1)!=0,
 "with_change_output_tail":tail(wt+"/with.log"),"without_change_output_tail":tail(wt+"/without.log")[-400:]},
 open(f"/verif/seeded/{id_}/confirm.json","w"),indent=1)
print(id_,"without:",rc0,"with:",rc1)
PY
  git -C /repo worktree remove --force $wt
done
