#!/bin/bash
# Build the framework from files on disk only (offline): Lean library + native model driver + Go engines.
set -e
cd /verif/lean
lake build RaftVerif RaftGen driver 2>&1 | tail -3
export GOFLAGS=-mod=mod GOPROXY=off GOSUMDB=off GOTOOLCHAIN=local CGO_ENABLED=0
mkdir -p /verif/build /verif/evidence /verif/replays
cp /repo/go.sum /verif/go/go.sum
cd /verif/go
for e in nodediff clustersim codecdiff conndiff logdiff repldiff probelive livestress scenario; do
  go build -tags verif -o /verif/build/$e ./$e
done
go build -o /verif/build/astfacts ./astfacts
echo setup done
